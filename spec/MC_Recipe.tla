------------------------------ MODULE MC_Recipe ------------------------------
(* Model instances of Recipe.tla *)
EXTENDS Recipe

R_Subst == {"W", "D", "N", "E"}
NoC == <<>>
NoS == {}
K4(w, d, n, e) == [W |-> w, D |-> d, N |-> n, E |-> e]
RCont(cap, c) == [cap |-> cap, w |-> <<MkWell(c)>>]
R_Names == {"a", "b", "p", "p2", "p3", "u", "c", "sol", "dil"}
R_Shape == [a |-> <<0, 0>>, b |-> <<0, 0>>, p |-> <<2, 2>>, p2 |-> <<1, 2>>, p3 |-> <<2, 3>>, u |-> <<0, 0>>, c |-> <<0, 0>>, sol |-> <<0, 0>>, dil |-> <<0, 0>>]
R_Regions == [A1 |-> SL!Str("A", "1"), A2 |-> SL!Pair(SL!IntN(1), SL!IntN(2)), B1 |-> SL!Str("B", "1"),
              B2 |-> SL!Pair(SL!Lbl("B"), SL!IntN(2)), row1 |-> SL!IntN(1), row2 |-> SL!Lbl("B"),
              col1 |-> SL!Pair(SL!All, SL!IntN(1)), plate |-> SL!All, all |-> SL!All,
              narrowB |-> SL!Sub(SL!All, SL!PySl(1, -1, 2), SL!PyAll)]          \* plate[:][1::2] = row B
R_ObjName == [a |-> "a", b |-> "b", p |-> "p", u |-> "u", a2 |-> "a"]
R_DSets == <<{"*plates*"}, {"p"}, {"a"}, {"b"}, {"a", "b", "p"}, {"p", "c", "sol", "dil"}, {"p2"}>>

Tr(sn, sr, dn, dr, q, u) == [call |-> "transfer", sn |-> sn, sr |-> sr, dn |-> dn, dr |-> dr, q |-> q, u |-> u]
Rm(n, r, what) == [call |-> "remove", n |-> n, r |-> r, what |-> what]
Fl(n, r, solvent, u, T) == [call |-> "fill_to", n |-> n, r |-> r, solvent |-> solvent, u |-> u, T |-> T]
Dl(n, solute, nu, du, solvent, t) == [call |-> "dilute", n |-> n, solute |-> solute, nu |-> nu, du |-> du, solvent |-> solvent, t |-> t, rename |-> "-"]
DlAs(n, solute, nu, du, solvent, t, name) == [call |-> "dilute", n |-> n, solute |-> solute, nu |-> nu, du |-> du, solvent |-> solvent, t |-> t, rename |-> name]
Cc(n, cap, entries) == [call |-> "create_container", n |-> n, cap |-> cap, entries |-> entries]
Cs(n, solute, solvent, q, qu, total, tu) == [call |-> "create_solution", n |-> n, solute |-> solute, solvent |-> solvent,
                                             q |-> q, qu |-> qu, total |-> total, tu |-> tu]
Cf(src, n, solute, solvent, t, nu, du, total, tu) == [call |-> "create_solution_from", src |-> src, n |-> n, solute |-> solute,
                                                      solvent |-> solvent, t |-> t, nu |-> nu, du |-> du, total |-> total, tu |-> tu]
Us(o) == [call |-> "uses", o |-> o]
UsL(os) == [call |-> "uses_list", os |-> os]
Ss(name) == [call |-> "start_stage", name |-> name]
Es(name) == [call |-> "end_stage", name |-> name]
Bk == [call |-> "bake"]

(***************************************************************************)
(* LIFE: the lifecycle alphabet; quantities are small so that the          *)
(* discipline, not feasibility, decides (C16)                              *)
(***************************************************************************)
LIFE_Init == {[a |-> RCont(Inf, K4(I(8), Zero, I(2), Zero)), b |-> RCont(I(20), K4(Zero, I(2), Zero, I(3))),
               p |-> [cap |-> I(10), w |-> <<EmptyWell, EmptyWell, EmptyWell, EmptyWell>>],
               p2 |-> [cap |-> I(6), w |-> <<EmptyWell, EmptyWell>>],
               \* a 2x3 plate whose wells A1, A2 and B3 need the same top-up (instruction text groups wells by amount)
               p3 |-> [cap |-> I(10), w |-> <<MkWell(K4(I(1), Zero, Zero, Zero)), MkWell(K4(I(1), Zero, Zero, Zero)), MkWell(K4(I(2), Zero, Zero, Zero)),
                                               MkWell(K4(I(3), Zero, Zero, Zero)), EmptyWell, MkWell(K4(I(1), Zero, Zero, Zero))>>],
               u |-> RCont(Inf, K4(I(4), Zero, Zero, Zero)), c |-> RCont(Inf, Empty), sol |-> RCont(Inf, Empty),
               dil |-> RCont(Inf, Empty)]}
LIFE_Alphabet == <<
  Us("a"), Us("b"), Us("p"), Us("a2"),
  Cc("c", I(10), <<<<"W", I(2)>>>>), Cc("a", I(10), <<<<"W", I(1)>>>>),
  Cs("sol", "N", "W", One, "mol", I(8), "L"), Cs("sol", "N", "u", One, "mol", I(6), "L"), Cs("sol", "N", "a", One, "g", I(4), "L"),
  Cf("a", "dil", "N", "W", R(1, 10), "mol", "L", I(2), "L"), Cf("u", "dil", "N", "W", R(1, 10), "mol", "L", I(2), "L"),
  Tr("a", "-", "b", "-", R(1, 4), "L"), Tr("a", "-", "p", "row1", R(1, 4), "L"), Tr("u", "-", "b", "-", R(1, 4), "L"),
  Tr("a", "-", "u", "-", R(1, 4), "L"),
  Rm("b", "-", "E"), Rm("u", "-", "W"), Dl("a", "N", "mol", "L", "W", R(1, 10)), Dl("u", "N", "mol", "L", "W", R(1, 10)),
  DlAs("a", "N", "mol", "L", "W", R(1, 10), "renamed"),
  Fl("p", "plate", "W", "L", I(2)), Fl("u", "-", "W", "L", I(6)),
  Ss("s1"), Es("s1"), Ss("s2"), Es("s2"), Ss("all"), Es("all"), Bk,
  \* several objects in one uses() call: two that share a name (a, a2), and a fresh pair
  UsL(<<"b", "a", "a2">>), UsL(<<"p", "u">>)>>

(***************************************************************************)
(* PROG: programs over two containers, a non-uniform 2x2 plate and         *)
(* recipe-created containers; every step kind; stage markers (C08,C09,C15) *)
(***************************************************************************)
PROG_Init == {[a |-> RCont(Inf, K4(I(8), One, I(2), Zero)), b |-> RCont(I(20), K4(Zero, I(2), Zero, I(3))),
               p |-> [cap |-> I(10), w |-> <<MkWell(K4(I(4), Zero, Zero, Zero)), MkWell(K4(I(2), I(1), Zero, Zero)),
                                              MkWell(K4(Zero, Zero, I(1), I(2))), EmptyWell>>],
               p2 |-> [cap |-> I(6), w |-> <<EmptyWell, MkWell(K4(I(1), Zero, Zero, Zero))>>],      \* first well empty
               \* a 2x3 plate whose wells A1, A2 and B3 need the same top-up (instruction text groups wells by amount)
               p3 |-> [cap |-> I(10), w |-> <<MkWell(K4(I(1), Zero, Zero, Zero)), MkWell(K4(I(1), Zero, Zero, Zero)), MkWell(K4(I(2), Zero, Zero, Zero)),
                                               MkWell(K4(I(3), Zero, Zero, Zero)), EmptyWell, MkWell(K4(I(1), Zero, Zero, Zero))>>],
               u |-> RCont(Inf, K4(I(4), Zero, Zero, Zero)), c |-> RCont(Inf, Empty), sol |-> RCont(Inf, Empty),
               dil |-> RCont(Inf, Empty)]}
PROG_ObjName == [a |-> "a", b |-> "b", p |-> "p", p2 |-> "p2", p3 |-> "p3"]
PROG_Steps == <<
  Tr("a", "-", "p", "row1", One, "L"), Tr("a", "-", "b", "-", I(2), "g"), Tr("p", "col1", "b", "-", R(1, 2), "mol"),
  Tr("p", "A1", "p", "row2", One, "L"), Tr("b", "-", "p", "plate", R(1, 2), "U"), Tr("a", "-", "b", "-", I(100), "L"),
  Tr("p", "plate", "a", "-", R(1, 2), "L"),
  \* a second plate: plate -> plate (element-wise, one -> many), container -> second plate
  Tr("p", "row1", "p2", "all", One, "L"), Tr("p", "A1", "p2", "plate", R(1, 2), "L"), Tr("a", "-", "p2", "plate", One, "L"),
  Tr("a", "-", "p", "narrowB", One, "L"), Rm("p", "narrowB", "E"),
  Rm("p", "plate", "W"), Rm("p", "row1", "liquid"), Rm("b", "-", "E"), Rm("a", "-", "solid"),
  Fl("p", "plate", "W", "L", I(6)), Fl("p", "row2", "W", "L", I(5)), Fl("b", "-", "W", "L", I(12)),
  Dl("a", "N", "mol", "L", "W", R(1, 10)), DlAs("a", "N", "mol", "L", "W", R(1, 12), "renamed"),
  Cc("c", I(10), <<<<"W", I(3)>>, <<"N", One>>, <<"W", One>>>>),       \* (a substance listed twice adds up)
  Tr("c", "-", "p", "A2", One, "L"), Tr("a", "-", "c", "-", I(2), "L"),
  Cs("sol", "N", "W", One, "mol", I(9), "L"), Cs("sol", "N", "a", I(3), "g", I(6), "L"), Tr("sol", "-", "p", "B1", One, "L"),
  \* (a target below what the dilute steps above leave, so that a stock that was diluted - and renamed - before is still a stock)
  Cf("a", "dil", "N", "W", R(1, 16), "mol", "L", I(4), "L"), Tr("dil", "-", "p", "B2", One, "L"),
  Cf("b", "dil", "D", "W", R(1, 20), "mol", "L", I(2), "L"),      \* from a source with a finite capacity: the new container has none
  Tr("a", "-", "c", "-", I(4), "L"),         \* overflows the 10-unit container the recipe itself created (7 + 4): bake must refuse
  Fl("p3", "plate", "W", "L", I(5)),         \* wells A1, A2, B3 get 4; A3 3; B1 2; B2 5 (grouped by amount in the instruction)
  Dl("a", "N", "g", "L", "W", R(1, 4)),      \* a weight-per-volume target (250 g/L after instantiation; 375 g/L before)
  \* more of a dilution than the source's own vessel could hold (24 units out of the 20-unit container b): the new container is
  \* not the source's vessel
  Cf("b", "dil", "D", "W", R(1, 20), "mol", "L", I(24), "L")>>
PROG_Alphabet == PROG_Steps \o <<Ss("s1"), Es("s1"), Ss("s2"), Bk>>
\* STAGE: refused bakes in the middle of a program.  p is declared explicitly and used late, so that a bake in between is
\* refused (declared but unused) and must leave the open stage open: the steps added afterwards belong to it (C09, C15, C16)
STAGE_Alphabet == <<Us("p"), Ss("s1"), Es("s1"), Tr("a", "-", "b", "-", One, "L"), Tr("a", "-", "p", "row1", One, "L"), Bk,
                    Rm("b", "-", "E"), Ss("s2")>>
STAGE_Small == SubSeq(STAGE_Alphabet, 1, 6)
\* a smaller alphabet for deep random walks
PROG_Core == <<PROG_Steps[1], PROG_Steps[2], PROG_Steps[3], PROG_Steps[4], PROG_Steps[8], PROG_Steps[10], PROG_Steps[11], PROG_Steps[12],
               PROG_Steps[13], PROG_Steps[14], PROG_Steps[17], PROG_Steps[19], PROG_Steps[22], PROG_Steps[23], PROG_Steps[25], PROG_Steps[27], Ss("s1"), Es("s1"), Ss("s2"), Es("s2"), Bk>>
=============================================================================
