----------------------------- MODULE Lifecycle -----------------------------
(***************************************************************************)
(* The lifecycle discipline of a Recipe (property C16) on its own: which   *)
(* API calls are accepted in which state, abstracting from every value.    *)
(* Recipe.tla implements this machine (checked by TLC as a refinement on   *)
(* the lifecycle instance, see MC_Recipe / RecipeRefines.cfg), and         *)
(* LifecycleTrace.tla validates executions recorded from the real library  *)
(* - the repository's own tests and examples - against it.                 *)
(***************************************************************************)
EXTENDS Naturals, FiniteSets, Sequences

VARIABLES declared,     \* names declared by uses() or created through the recipe
          used,         \* names marked as used by some step
          stageNames,   \* names of the stages that have been closed
          cur,          \* the open stage, "all" if none
          locked,       \* baked successfully
          nsteps,       \* number of deferred steps
          dead          \* a bake failed part-way: results and stage bookkeeping are no longer specified; NOT locked

lvars == <<declared, used, stageNames, cur, locked, nsteps, dead>>

LInit == /\ declared = {} /\ used = {} /\ stageNames = {} /\ cur = "all"
         /\ locked = FALSE /\ nsteps = 0 /\ dead = FALSE

\* what the discipline says about a call in the current state: "ok", "RuntimeError" (locked) or "refused"
UsesOutcome(n) == IF locked THEN "RuntimeError" ELSE IF n \in declared THEN "refused" ELSE "ok"
StepOutcome(ops, creates) ==
  IF locked THEN "RuntimeError"
  ELSE IF ~(ops \subseteq declared) THEN "refused"
  ELSE IF creates # "-" /\ creates \in declared THEN "refused"
  ELSE "ok"
StartOutcome(s) == IF locked THEN "RuntimeError"
                   ELSE IF s \in stageNames \cup {"all"} \/ cur # "all" THEN "refused" ELSE "ok"
EndOutcome(s) == IF locked THEN "RuntimeError" ELSE IF s = "all" \/ cur # s THEN "refused" ELSE "ok"
BakeOutcome == IF locked THEN "RuntimeError" ELSE IF declared # used THEN "refused" ELSE "ok"

LUses(n) == /\ UsesOutcome(n) = "ok"
            /\ declared' = declared \cup {n}
            /\ UNCHANGED <<used, stageNames, cur, locked, nsteps, dead>>

\* several objects in one uses() call: the (possibly empty) set of names that got declared before the call succeeded or
\* failed on a duplicate; none of them was declared before
LUsesSome(S) == /\ ~locked /\ S \cap declared = {}
                /\ declared' = declared \cup S
                /\ UNCHANGED <<used, stageNames, cur, locked, nsteps, dead>>

LStep(ops, creates, marks) ==
  /\ StepOutcome(ops, creates) = "ok"
  /\ declared' = declared \cup (IF creates = "-" THEN {} ELSE {creates})
  /\ used' = used \cup marks
  /\ nsteps' = nsteps + 1
  /\ UNCHANGED <<stageNames, cur, locked, dead>>

LStart(s) == /\ ~dead /\ StartOutcome(s) = "ok" /\ cur' = s
             /\ UNCHANGED <<declared, used, stageNames, locked, nsteps, dead>>

LEnd(s) == /\ ~dead /\ EndOutcome(s) = "ok" /\ stageNames' = stageNames \cup {s} /\ cur' = "all"
           /\ UNCHANGED <<declared, used, locked, nsteps, dead>>

LBake == /\ ~dead /\ BakeOutcome = "ok"
         /\ locked' = TRUE
         /\ stageNames' = stageNames \cup (IF cur = "all" THEN {} ELSE {cur})     \* bake closes the open stage
         /\ cur' = "all"
         /\ UNCHANGED <<declared, used, nsteps, dead>>

\* a bake that fails because a step is infeasible: what the results and the stages are afterwards is not specified (the
\* implementation has executed a prefix of the steps), but the recipe has NOT been baked successfully, so it is not locked:
\* declaring and step-adding calls go on under the same discipline (LUses, LStep above do not ask for ~dead).  (A bake refused because a declared
\* object is unused changes nothing - BakeOutcome = "refused" - and the recipe can be completed and baked.)
LBakeFail == /\ ~dead /\ ~locked /\ dead' = TRUE
             /\ UNCHANGED <<declared, used, stageNames, cur, locked, nsteps>>

\* properties of the discipline itself
LOneOpenStage == cur = "all" \/ cur \notin stageNames
LLockedMeansAllUsed == locked => (declared = used /\ cur = "all")
LLockedFreezes == [][locked => UNCHANGED lvars]_lvars
=============================================================================
