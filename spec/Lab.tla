--------------------------------- MODULE Lab ---------------------------------
(***************************************************************************)
(* The direct (eager) API of PyPlate as a state machine over named         *)
(* vessels.  A vessel is a container (one well) or a plate (nr x nc wells, *)
(* row-major); ves maps each name to [cap, w] where w is the sequence of   *)
(* wells [c |-> contents, vol |-> cached volume].  Every public operation  *)
(* is one action; it computes the specified result with the operators of   *)
(* Vessel.tla, installs it only if the request is feasible and every       *)
(* resulting well is valid, and otherwise leaves ves unchanged and records *)
(* the refusal (failure is atomic).                                        *)
(*                                                                         *)
(* The variable `last` is the event just taken (operation, every argument, *)
(* the specified outcome, feasibility class).  It is hidden from state     *)
(* fingerprints by VIEW, and the ACTION_CONSTRAINT Emit prints one JSON    *)
(* line <<pre-state, event, post-state>> for every generated transition,   *)
(* which the harness replays into the implementation.                      *)
(***************************************************************************)
EXTENDS Vessel, TLC, Json

CONSTANTS Names,        \* vessel names
          Shape,        \* [Names -> <<nr, nc>>], <<0, 0>> for a container
          InitVes,      \* SET of initial values of ves
          Regions,      \* [region name -> selector AST of Slicer.tla]
          Forms,        \* SEQUENCE of transfer forms [sn, sr, dn, dr] (region "-" for a container, "plate" = the Plate object)
          Fracs,        \* fractions of the source measure offered as quantities
          TUnits,       \* quantity units offered for transfers
          CapStep,      \* how far beyond "exactly full" the capacity-targeted request goes
          RemoveCases,  \* sequence of [n, r, what]
          FillCases,    \* sequence of [n, r, solvent, u]
          FillDeltas,   \* target = reference well's current measure + delta
          DiluteCases,  \* sequence of [n, solute, nu, du, solvent]
          DiluteYs,     \* solvent amounts whose resulting concentration is requested (inverse construction)
          NearTargets,  \* BOOLEAN: also request concentrations 5 ppm below / above the current one
          NewCases,     \* sequence of [n, cap, entries]
          SolCases,     \* set of create_solution cases, see CreateSolution
          FromCases,    \* set of create_solution_from cases, see CreateSolutionFrom
          Shard, NShards, \* this TLC process expands, from an initial state, only the cases whose index is Shard mod NShards
          MaxDepth,
          DenBound

VARIABLES ves, last

vars == <<ves, last>>
View == ves

SL == INSTANCE Slicer

IsC(n) == Shape[n] = <<0, 0>>

\* denotation of region r on vessel n: linear well indices and shape
RegDen(n, r) ==
  IF IsC(n) THEN [ok |-> TRUE, wells |-> <<1>>, shape |-> <<>>]
  ELSE LET nr == Shape[n][1]
           nc == Shape[n][2]
           d  == SL!DenoteAny(Regions[r], SL!DefaultRows(nr), SL!DefaultCols(nc))
       IN  IF d.ok
           THEN [ok |-> TRUE, wells |-> [j \in DOMAIN d.wells |-> SL!Lin(d.wells[j], nc)], shape |-> d.shape]
           ELSE [ok |-> FALSE, wells |-> <<>>, shape |-> <<>>]

RegNames == DOMAIN Regions \cup {"-"}
RegTab == [n \in Names |-> [r \in RegNames |-> IF r = "-" /\ ~IsC(n) THEN [ok |-> FALSE, wells |-> <<>>, shape |-> <<>>]
                                                ELSE IF r = "-" THEN RegDen(n, r)
                                                ELSE IF IsC(n) THEN [ok |-> FALSE, wells |-> <<>>, shape |-> <<>>]
                                                ELSE RegDen(n, r)]]

SeqRange(s) == {s[i] : i \in DOMAIN s}

MinOf(S) == CHOOSE x \in S : \A y \in S : Le(x, y)
MaxOf(S) == CHOOSE x \in S : \A y \in S : Le(y, x)

Combine(a, b) == IF "degenerate" \in {a, b} THEN "degenerate"
                 ELSE IF "boundary" \in {a, b} THEN "boundary" ELSE "interior"

-----------------------------------------------------------------------------
(***************************************************************************)
(* transfer: nine pairing forms                                            *)
(***************************************************************************)
\* S, D: denotations [ok, wells, shape] of the source and destination regions; sC, dC: is the side a container?
PairUp(S, D, sC, dC) ==
  LET ns == Len(S.wells)
      nd == Len(D.wells)
  IN  IF ~S.ok \/ ~D.ok \/ ns = 0 \/ nd = 0
        THEN [ok |-> FALSE, form |-> "invalid", pairs |-> <<>>]
      ELSE IF sC \/ (ns = 1 /\ S.shape = <<1, 1>>)
        THEN [ok |-> TRUE,
              form |-> IF sC /\ dC THEN "CtoC" ELSE IF sC THEN "CtoN" ELSE IF dC THEN "1toC"
                       ELSE IF nd = 1 THEN "1to1" ELSE "1toN",
              pairs |-> [j \in 1..nd |-> <<S.wells[1], D.wells[j]>>]]
      ELSE IF dC \/ (nd = 1 /\ D.shape = <<1, 1>>)
        THEN [ok |-> TRUE, form |-> IF dC THEN "NtoC" ELSE "Nto1",
              pairs |-> [j \in 1..ns |-> <<S.wells[j], D.wells[1]>>]]
      ELSE IF S.shape = D.shape
        THEN [ok |-> TRUE, form |-> "NtoN", pairs |-> [j \in 1..ns |-> <<S.wells[j], D.wells[j]>>]]
      ELSE [ok |-> FALSE, form |-> "mismatch", pairs |-> <<>>]

Pairing(f) == PairUp(RegTab[f.sn][f.sr], RegTab[f.dn][f.dr], IsC(f.sn), IsC(f.dn))

\* an element-wise transfer between list selections that name a well twice
Duplicated(P) == P.form = "NtoN" /\ \E i, j \in DOMAIN P.pairs : i # j /\ (P.pairs[i][1] = P.pairs[j][1] \/ P.pairs[i][2] = P.pairs[j][2])

Overlap(f, P) ==        \* (f needs only the fields sn, dn)
  IF Duplicated(P) THEN "duplicate"
  ELSE IF f.sn # f.dn THEN "none"
  ELSE LET ss == {p[1] : p \in SeqRange(P.pairs)}
           ds == {p[2] : p \in SeqRange(P.pairs)}
       IN  IF IsC(f.sn) THEN "self"
           ELSE IF ss \cap ds = {} THEN "disjoint"
           ELSE IF \A p \in SeqRange(P.pairs) : p[1] = p[2] THEN "identical"
           ELSE "overlap"

\* the pairs are processed one after the other on the evolving state (the shape of the per-well helpers
\* of the implementation); the first infeasible pair makes the whole request infeasible
RECURSIVE XferFold(_, _, _, _, _, _, _)
XferFold(V, f, pairs, q, u, k, cls) ==
  IF pairs = <<>> THEN [ok |-> TRUE, V |-> V, cls |-> cls, at |-> 0]
  ELSE LET p  == Head(pairs)
           sw == V[f.sn].w[p[1]]
           dw == V[f.dn].w[p[2]]
       IN  IF f.sn = f.dn /\ p[1] = p[2]
           THEN \* a well paired with itself: nothing moves, but it must hold what is asked for
                IF Lt(Measure(sw.c, u), q) THEN [ok |-> FALSE, V |-> V, cls |-> "overdraw", at |-> k]
                ELSE XferFold(V, f, Tail(pairs), q, u, k + 1, cls)
           ELSE LET r == XferPair(sw, dw, V[f.dn].cap, q, u) IN
                IF ~Feasible(r.cls) THEN [ok |-> FALSE, V |-> V, cls |-> r.cls, at |-> k]
                ELSE LET V1 == [V EXCEPT ![f.sn].w[p[1]] = r.sw]
                         V2 == [V1 EXCEPT ![f.dn].w[p[2]] = r.dw]
                     IN  XferFold(V2, f, Tail(pairs), q, u, k + 1, Combine(cls, r.cls))

TransferOpP(V, f, P, q, u) ==        \* with the pairing given (f needs only the fields sn, dn)
  IF ~P.ok THEN [ok |-> FALSE, V |-> V, cls |-> "shape_mismatch", at |-> 0]
  ELSE IF IsNeg(q) THEN [ok |-> FALSE, V |-> V, cls |-> "negative", at |-> 0]
  ELSE XferFold(V, f, P.pairs, q, u, 1, "interior")

TransferOp(V, f, q, u) ==
  LET P == Pairing(f) IN
  IF ~P.ok THEN [ok |-> FALSE, V |-> V, cls |-> "shape_mismatch", at |-> 0]
  ELSE IF IsNeg(q) THEN [ok |-> FALSE, V |-> V, cls |-> "negative", at |-> 0]
  ELSE XferFold(V, f, P.pairs, q, u, 1, "interior")

\* quantities offered: fractions of the smallest / largest source measure (divided by the number of
\* draws from one source well), the amounts that fill the first destination well exactly / just beyond
QCands(f, u, P) ==
  LET srcIdx == {p[1] : p \in SeqRange(P.pairs)}
      ms == {Measure(ves[f.sn].w[i].c, u) : i \in srcIdx}
      mn == MinOf(ms)
      mx == MaxOf(ms)
      k  == IF P.form \in {"CtoN", "1toN"} THEN Len(P.pairs) ELSE 1
      base == {Div(mn, I(k)), Div(mx, I(k))}
      fr == IF IsZero(mx) THEN {Zero, One} ELSE {Mul(x, b) : x \in Fracs, b \in base}
      dcap == ves[f.dn].cap
      dw == ves[f.dn].w[P.pairs[1][2]]
      capq == IF u = "L" /\ dcap # Inf /\ Lt(dw.vol, dcap)
              THEN {Sub(dcap, dw.vol), Add(Sub(dcap, dw.vol), CapStep)} ELSE {}
  IN  fr \cup capq

Transfer(f, u, q) ==
  LET P == Pairing(f)
      r == TransferOp(ves, f, q, u)
  IN  /\ ves' = IF r.ok THEN r.V ELSE ves
      /\ last' = [op |-> "transfer", sn |-> f.sn, sr |-> f.sr, dn |-> f.dn, dr |-> f.dr, q |-> q, u |-> u,
                  res |-> IF r.ok THEN "ok" ELSE "ValueError", cls |-> r.cls, at |-> r.at,
                  form |-> P.form, overlap |-> IF P.ok THEN Overlap(f, P) ELSE "none", pairs |-> P.pairs]

\* sharding: the cases offered in an initial state are divided among NShards independent TLC processes
InShard(i) == TLCGet("level") > 1 \/ i % NShards = Shard

TransferAny ==
  \E i \in DOMAIN Forms : InShard(i) /\
    LET f == Forms[i]
        P == Pairing(f) IN
    IF P.ok THEN \E u \in TUnits : \E q \in QCands(f, u, P) : Transfer(f, u, q)
    ELSE Transfer(f, "L", One)

-----------------------------------------------------------------------------
(***************************************************************************)
(* remove, fill_to on containers, plates and slices; dilute on containers  *)
(***************************************************************************)
\* fill the wells idx of vessel v one after the other; the first infeasible well refuses the whole request
RECURSIVE FillFold(_, _, _, _, _, _, _, _)
FillFold(v, idx, solvent, T, u, k, cls, ys) ==
  IF idx = <<>> THEN [ok |-> TRUE, v |-> v, cls |-> cls, at |-> 0, ys |-> ys]
  ELSE LET r == FillOp(v.w[Head(idx)], v.cap, solvent, T, u) IN
       IF ~Feasible(r.cls) THEN [ok |-> FALSE, v |-> v, cls |-> r.cls, at |-> k, ys |-> ys]
       ELSE FillFold([v EXCEPT !.w[Head(idx)] = r.w], Tail(idx), solvent, T, u, k + 1,
                     Combine(cls, r.cls), Append(ys, r.y))

\* pure form: the vessels after removing c.what from region c.r of vessel c.n, and what was removed (summed)
RemoveV(V, c) ==
  LET RG == RegTab[c.n][c.r] IN
  [V EXCEPT ![c.n].w = [i \in DOMAIN V[c.n].w |->
      IF i \in SeqRange(RG.wells) THEN RemoveOp(V[c.n].w[i], c.what) ELSE V[c.n].w[i]]]

RemovedV(V, c) ==
  LET RG == RegTab[c.n][c.r]
      idx == {RG.wells[j] : j \in DOMAIN RG.wells}      \* a well listed twice is emptied once
  IN  [s \in Subst |-> SumOver(idx, [i \in idx |-> RemovedC(V[c.n].w[i].c, c.what)[s]])]

Remove(c) ==
  LET RG == RegTab[c.n][c.r] IN
      /\ RG.ok
      /\ ves' = RemoveV(ves, c)
      /\ last' = [op |-> "remove", n |-> c.n, r |-> c.r, what |-> c.what, res |-> "ok", cls |-> "interior",
                  wells |-> RG.wells]

FillTargets(c, RG) ==
  LET ms == {Measure(ves[c.n].w[i].c, c.u) : i \in SeqRange(RG.wells)}
      refs == {MinOf(ms), MaxOf(ms)}
      cap == ves[c.n].cap
      byDelta == {Add(m, d) : m \in refs, d \in FillDeltas}
      byCap == IF c.u = "L" /\ cap # Inf THEN {cap, Add(cap, CapStep)} ELSE {}
  IN  {T \in byDelta \cup byCap : IsPos(T)}

FillV(V, c, T) ==
  LET RG == RegTab[c.n][c.r]
      r == FillFold(V[c.n], RG.wells, c.solvent, T, c.u, 1, "interior", <<>>)
  IN  [ok |-> r.ok, V |-> IF r.ok THEN [V EXCEPT ![c.n] = r.v] ELSE V, cls |-> r.cls, at |-> r.at, ys |-> r.ys]

FillTo(c, T) ==
  LET r == FillV(ves, c, T) IN
      /\ ves' = r.V
      /\ last' = [op |-> "fill_to", n |-> c.n, r |-> c.r, solvent |-> c.solvent, u |-> c.u, T |-> T,
                  res |-> IF r.ok THEN "ok" ELSE "ValueError", cls |-> r.cls, at |-> r.at,
                  wells |-> RegTab[c.n][c.r].wells, ys |-> r.ys]

FillAny == \E i \in DOMAIN FillCases : InShard(i) /\ LET c == FillCases[i] IN RegTab[c.n][c.r].ok /\ \E T \in FillTargets(c, RegTab[c.n][c.r]) : FillTo(c, T)

\* inverse construction: pick the amount y of solvent, request the concentration it produces;
\* also request 3/2 of the current concentration (infeasible) and, for an absent solute, anything
DiluteTargets(c) ==
  LET w == ves[c.n].w[1]
      den == Measure(w.c, c.du)
      num == Single1(c.solute, w.c[c.solute], c.nu)
  IN  IF IsZero(w.c[c.solute]) THEN {One}
      ELSE IF IsZero(den) \/ IsZero(num) THEN {}
      ELSE {Conc(Plus(w.c, Only(c.solvent, y)), c.solute, c.nu, c.du) : y \in DiluteYs}
           \cup {Mul(R(3, 2), Div(num, den))}
           \* just below / just above the current concentration (5 parts per million): the first is an ordinary
           \* dilution by a tiny amount, the second must be refused
           \cup (IF NearTargets THEN {Mul(R(199999, 200000), Div(num, den)), Mul(R(200001, 200000), Div(num, den))} ELSE {})

DiluteV(V, c, t) ==
  LET w == V[c.n].w[1]
      r == DiluteOp(w, V[c.n].cap, c.solute, c.nu, c.du, c.solvent, t)
      ok == Feasible(r.cls)
  IN  [ok |-> ok, V |-> IF ok THEN [V EXCEPT ![c.n].w[1] = r.w] ELSE V, cls |-> r.cls, y |-> IF ok THEN r.y ELSE Zero]

Dilute(c, t) ==
  LET w == ves[c.n].w[1]
      r == DiluteV(ves, c, t)
  IN  /\ ves' = r.V
      /\ last' = [op |-> "dilute", n |-> c.n, solute |-> c.solute, nu |-> c.nu, du |-> c.du,
                  solvent |-> c.solvent, t |-> t, res |-> IF r.ok THEN "ok" ELSE "ValueError", cls |-> r.cls,
                  y |-> r.y,
                  near |-> (t = Mul(R(199999, 200000), Div(Single1(c.solute, w.c[c.solute], c.nu), Measure(w.c, c.du)))
                            \/ t = Mul(R(200001, 200000), Div(Single1(c.solute, w.c[c.solute], c.nu), Measure(w.c, c.du)))),
                  ncomp |-> Cardinality(Support(w.c) \cup {c.solvent}),
                  solventPresent |-> ~IsZero(w.c[c.solvent])]

DiluteAny == \E i \in DOMAIN DiluteCases : InShard(i) /\ LET c == DiluteCases[i] IN IsC(c.n) /\ \E t \in DiluteTargets(c) : Dilute(c, t)

-----------------------------------------------------------------------------
(***************************************************************************)
(* Container(name, max_volume, initial_contents)                           *)
(***************************************************************************)
NewV(V, c) ==
  LET r == BuildFrom(EmptyWell, c.cap, c.entries)
      ok == Feasible(r.cls)
  IN  [ok |-> ok, V |-> IF ok THEN [V EXCEPT ![c.n] = [cap |-> c.cap, w |-> <<r.w>>]] ELSE V, cls |-> r.cls]

New(c) ==
  LET r == NewV(ves, c) IN
      /\ ves' = r.V
      /\ last' = [op |-> "new", n |-> c.n, cap |-> c.cap, entries |-> c.entries,
                  res |-> IF r.ok THEN "ok" ELSE "ValueError", cls |-> r.cls]

NewAny == \E i \in DOMAIN NewCases : InShard(i) /\ New(NewCases[i])

-----------------------------------------------------------------------------
(***************************************************************************)
(* create_solution(solutes, solvent, name, two of concentration /          *)
(* quantity / total_quantity) by INVERSE CONSTRUCTION: the case carries    *)
(* the answer x (amount of every solute and of the solvent, possibly with  *)
(* a non-positive solvent amount to make an infeasible request); the       *)
(* stated inputs are derived from x with the definitions of Chem.tla, and  *)
(* the specified result is x.  A case is                                   *)
(*   [n, solutes : Seq(Subst), solvent : Subst or vessel name, xs : Seq,   *)
(*    xsolv : Rat, given : "cq"|"ct"|"qt", nu : Seq, du : Seq, qu : Seq,   *)
(*    tu : unit, skew : Rat]                                               *)
(* When the solvent is a container its portion is an aliquot of xsolv      *)
(* moles (non-enzyme amount units) of it.                                  *)
(***************************************************************************)
SolvIsVessel(c) == c.solvent \in Names

\* the mixture the request asks for
SolvPortion(c) ==
  IF SolvIsVessel(c)
  THEN LET sc == ves[c.solvent].w[1].c IN
       IF IsZero(Moles(sc)) THEN Empty ELSE Scale(sc, Div(c.xsolv, Moles(sc)))
  ELSE Only(c.solvent, c.xsolv)

RECURSIVE SolutesC(_, _)
SolutesC(sols, xs) == IF sols = <<>> THEN Empty ELSE Plus(Only(Head(sols), Head(xs)), SolutesC(Tail(sols), Tail(xs)))

SolTarget(c) == Plus(SolutesC(c.solutes, c.xs), SolvPortion(c))

\* the stated inputs derived from the target mixture
SolInputs(c) ==
  LET x == SolTarget(c) IN
  [conc  |-> [i \in DOMAIN c.solutes |-> IF IsZero(Measure(x, c.du[i])) THEN Zero
                                            ELSE Conc(x, c.solutes[i], c.nu[i], c.du[i])],
   \* (c.skew multiplies the stated quantity of the LAST solute: # 1 makes an over-determined request inconsistent)
   qty   |-> [i \in DOMAIN c.solutes |-> Mul(Single1(c.solutes[i], c.xs[i], c.qu[i]),
                                               IF i = Len(c.solutes) THEN c.skew ELSE One)],
   total |-> Measure(x, c.tu)]

\* does mixture x meet the stated inputs (property C05's wording)?
Meets(x, c, inp) ==
  /\ c.given \in {"cq", "ct"} =>
       \A i \in DOMAIN c.solutes : ~IsZero(Measure(x, c.du[i])) /\ Conc(x, c.solutes[i], c.nu[i], c.du[i]) = inp.conc[i]
  /\ (c.given \in {"cq", "qt"} /\ ~c.solventHoldsSolute) =>        \* (else the stated quantity is what is ADDED)
       \A i \in DOMAIN c.solutes : Single1(c.solutes[i], x[c.solutes[i]], c.qu[i]) = inp.qty[i]
  /\ c.given \in {"ct", "qt"} => Measure(x, c.tu) = inp.total

SolClass(c) ==
  LET x == SolTarget(c)
      nameable == \A i \in DOMAIN c.solutes : ~IsZero(PerUnit(c.solutes[i], c.nu[i])) /\ ~IsZero(PerUnit(c.solutes[i], c.qu[i]))
      inp == SolInputs(c)
      positive == /\ (c.given \in {"cq", "ct"} => \A i \in DOMAIN c.solutes : IsPos(inp.conc[i]) /\ IsPos(Measure(x, c.du[i])))
                  /\ (c.given \in {"cq", "qt"} => \A i \in DOMAIN c.solutes : IsPos(inp.qty[i]))
                  /\ (c.given \in {"ct", "qt"} => IsPos(inp.total))
      \* a solute stated as ZERO ('0 g', '0 M' - nothing negative): no mixture with all amounts positive meets it
      statedZero == /\ \E i \in DOMAIN c.xs : IsZero(c.xs[i])
                    /\ \A i \in DOMAIN c.xs : ~IsNeg(c.xs[i])
                    /\ IsPos(c.xsolv) /\ c.skew = One
                    /\ \A i \in DOMAIN c.solutes : IsPos(Measure(x, c.du[i]))
  IN  IF ~nameable THEN "ill_posed"
      ELSE IF statedZero THEN "nonpositive"
      ELSE IF ~positive THEN "ill_posed"      \* otherwise every stated number is positive, as a user would write it
      ELSE IF c.skew # One THEN (IF Len(c.solutes) >= 2 /\ c.given = "cq" THEN "inconsistent" ELSE "ill_posed")
      ELSE IF ~IsPos(c.xsolv) \/ \E i \in DOMAIN c.xs : ~IsPos(c.xs[i]) THEN "nonpositive"
      ELSE IF SolvIsVessel(c) /\ Lt(Moles(ves[c.solvent].w[1].c), c.xsolv) THEN "overdraw"
      ELSE IF SolvIsVessel(c) /\ Moles(ves[c.solvent].w[1].c) = c.xsolv THEN "boundary"
      ELSE "interior"

CreateSolution(c) ==
  LET cls == SolClass(c)
      ok == Feasible(cls)
      x == SolTarget(c)
      inp == SolInputs(c)
      resid == IF SolvIsVessel(c) THEN MkWell(Minus(ves[c.solvent].w[1].c, SolvPortion(c))) ELSE EmptyWell
      V1 == [ves EXCEPT ![c.n] = [cap |-> Inf, w |-> <<MkWell(x)>>]]
      V2 == IF SolvIsVessel(c) THEN [V1 EXCEPT ![c.solvent].w[1] = resid] ELSE V1
  IN  /\ cls # "ill_posed"
      /\ ves' = IF ok THEN V2 ELSE ves
      /\ last' = [op |-> "create_solution", n |-> c.n, solutes |-> c.solutes, solvent |-> c.solvent,
                  solvIsVessel |-> SolvIsVessel(c), given |-> c.given, nu |-> c.nu, du |-> c.du, qu |-> c.qu,
                  tu |-> c.tu, conc |-> inp.conc, qty |-> inp.qty, total |-> inp.total, x |-> x,
                  xs |-> c.xs, xsolv |-> c.xsolv,
                  res |-> IF ok THEN "ok" ELSE "ValueError", cls |-> cls]

\* (SolCases and FromCases are SETS; they are sharded by a number derived from the case)
RatNum(x) == x[1] + x[2]
SolAny == \E c \in SolCases : InShard(Len(c.solutes) + RatNum(c.xs[1]) + RatNum(c.xsolv) + Len(c.nu[1]) + 2 * Len(c.du[1]) + 3 * Len(c.tu)) /\ (c.solvent \in Names => IsC(c.solvent)) /\ CreateSolution(c)

-----------------------------------------------------------------------------
(***************************************************************************)
(* create_solution_from(source, solute, concentration, solvent, quantity)  *)
(* by inverse construction: the case carries the fraction fx of the source *)
(* taken and the amount y of pure solvent added (or, for a container       *)
(* solvent, the fraction fy of it taken).  A case is                       *)
(*   [src, n, solute, solvent, fx, y, nu, du, tu]                          *)
(***************************************************************************)
FromSolvIsVessel(c) == c.solvent \in Names

FromPartsV(V, c) ==
  LET sc == V[c.src].w[1].c
      px == Scale(sc, c.fx)
      py == IF FromSolvIsVessel(c) THEN Scale(V[c.solvent].w[1].c, c.y) ELSE Only(c.solvent, c.y)
  IN  [px |-> px, py |-> py, x |-> Plus(px, py)]
FromParts(c) == FromPartsV(ves, c)

FromClassV(V, c) ==
  LET P == FromPartsV(V, c) IN
  IF IsZero(V[c.src].w[1].c[c.solute]) THEN "no_solute"
  ELSE IF IsNeg(c.fx) \/ IsNeg(c.y) THEN "conc_unreachable"
  ELSE IF Lt(One, c.fx) \/ (FromSolvIsVessel(c) /\ Lt(One, c.y)) THEN "stock_exceeded"
  ELSE IF IsZero(c.y) \/ IsZero(c.fx) \/ c.fx = One \/ (FromSolvIsVessel(c) /\ c.y = One) THEN "boundary"
  ELSE "interior"
FromClass(c) == FromClassV(ves, c)

\* the request as a function of the state: what is stated (t, total), the verdict and the state that results
FromV(V, c) ==
  LET cls == FromClassV(V, c)
      ok == Feasible(cls)
      P == FromPartsV(V, c)
      V1 == [V EXCEPT ![c.n] = [cap |-> Inf, w |-> <<MkWell(P.x)>>]]
      V2 == [V1 EXCEPT ![c.src].w[1] = MkWell(Minus(V[c.src].w[1].c, P.px))]
      V3 == IF FromSolvIsVessel(c) THEN [V2 EXCEPT ![c.solvent].w[1] = MkWell(Minus(V[c.solvent].w[1].c, P.py))] ELSE V2
  IN  [ok |-> ok, cls |-> cls, V |-> IF ok THEN V3 ELSE V, x |-> P.x,
       t |-> IF IsZero(Measure(P.x, c.du)) THEN Zero ELSE Conc(P.x, c.solute, c.nu, c.du), total |-> Measure(P.x, c.tu)]

CreateSolutionFrom(c) ==
  LET r == FromV(ves, c)
      cls == r.cls
      ok == r.ok
      t == r.t
      tot == r.total
  IN  /\ IsPos(tot) /\ IsPos(t)
      /\ ves' = r.V
      /\ last' = [op |-> "create_solution_from", src |-> c.src, n |-> c.n, solute |-> c.solute,
                  solvent |-> c.solvent, solvIsVessel |-> FromSolvIsVessel(c), nu |-> c.nu, du |-> c.du,
                  tu |-> c.tu, t |-> t, total |-> tot, fx |-> c.fx, y |-> c.y, x |-> r.x,
                  stockConc |-> IF IsZero(Measure(ves[c.src].w[1].c, c.du)) THEN Zero
                                ELSE Conc(ves[c.src].w[1].c, c.solute, c.nu, c.du),
                  ncomp |-> Cardinality(Support(ves[c.src].w[1].c)),
                  \* a plain aliquot: the target IS the stock's concentration (no solvent at all), part of the stock taken
                  aliquot |-> (~FromSolvIsVessel(c) /\ IsZero(c.y) /\ IsPos(c.fx) /\ Lt(c.fx, One)),
                  res |-> IF ok THEN "ok" ELSE "ValueError", cls |-> cls]

FromAny == \E c \in FromCases : InShard(RatNum(c.fx) + RatNum(c.y) + Len(c.nu) + 2 * Len(c.du) + 3 * Len(c.tu) + Len(c.src)) /\ IsC(c.src) /\ c.src # c.n /\ (c.solvent \in Names => (IsC(c.solvent) /\ c.solvent \notin {c.src, c.n}))
                               /\ CreateSolutionFrom(c)

-----------------------------------------------------------------------------
\* the instance's static tables, printed once so that the harness renders regions exactly as specified
ASSUME PrintT(ToJson([config |-> [shape |-> Shape, regions |-> Regions, inits |-> InitVes]]))

Init == /\ ves \in InitVes
        /\ last = [op |-> "init"]

Step == \/ TransferAny
        \/ \E i \in DOMAIN RemoveCases : InShard(i) /\ Remove(RemoveCases[i])
        \/ FillAny
        \/ DiluteAny
        \/ NewAny
        \/ SolAny
        \/ FromAny

\* emission: one JSON line <<pre-state, event, post-state>> per generated transition.  It is a conjunct of
\* the next-state relation (always TRUE) so that it is evaluated for every successor TLC generates, also
\* those that lead to an already-seen state, that are refusals, or that fall outside the exploration bound.
Emit == PrintT(ToJson(<<ves, last', ves'>>))

Next == Step /\ Emit

Spec == Init /\ [][Next]_vars
SpecQuiet == Init /\ [][Step]_vars      \* the same machine without emission (exhaustive multi-worker runs)

\* exploration bounds (CONSTRAINT): depth and lattice.  A state at level <= MaxDepth is expanded, so every
\* behaviour of up to MaxDepth operations is generated (the initial state has level 1).
WellsOf(V) == UNION {{V[n].w[i] : i \in DOMAIN V[n].w} : n \in Names}
DenOK == \A w \in WellsOf(ves) : MaxDenC(w.c) <= DenBound
Bound == TLCGet("level") <= MaxDepth /\ DenOK

-----------------------------------------------------------------------------
(***************************************************************************)
(* Properties of the specified semantics, checked by TLC on every instance *)
(***************************************************************************)
TypeOK == \A n \in Names : /\ (ves[n].cap = Inf \/ IsRat(ves[n].cap))
                           /\ Len(ves[n].w) = IF IsC(n) THEN 1 ELSE Shape[n][1] * Shape[n][2]
                           /\ \A i \in DOMAIN ves[n].w : \A s \in Subst : IsRat(ves[n].w[i].c[s])

\* C03: no negative amount, no negative volume, never above capacity
NonNeg == \A w \in WellsOf(ves) : NonNegC(w.c) /\ ~IsNeg(w.vol)
CapOK  == \A n \in Names : \A i \in DOMAIN ves[n].w : Fits(ves[n].w[i].vol, ves[n].cap)

\* C10: the cached volume is the volume of the contents (additivity of volumes)
VolConsistent == \A w \in WellsOf(ves) : w.vol = Volume(w.c)

Total(V, s) == SumOver(Names, [n \in Names |-> SumSeq([i \in DOMAIN V[n].w |-> V[n].w[i].c[s]])])

IsOp(o) == last'.op = o
Ok      == last'.res = "ok"

\* C01: transfers conserve every substance, and touch nothing outside source and destination regions
Conservation == [][IsOp("transfer") => \A s \in Subst : Total(ves', s) = Total(ves, s)]_vars
TouchedXfer(n, i) == \/ (n = last'.sn /\ \E p \in SeqRange(last'.pairs) : p[1] = i)
                     \/ (n = last'.dn /\ \E p \in SeqRange(last'.pairs) : p[2] = i)
LocalityXfer == [][IsOp("transfer") => \A n \in Names : \A i \in DOMAIN ves[n].w :
                      ~TouchedXfer(n, i) => ves'[n].w[i] = ves[n].w[i]]_vars

\* C03/C04: a refusal changes nothing
RefusalAtomic == [][last'.res # "ok" => ves' = ves]_vars

\* C02: on non-overlapping transfers every source well loses a uniform aliquot of size q and the
\* paired destination gains exactly that; draws from one source accumulate
PairsFrom(i) == {p \in SeqRange(last'.pairs) : p[1] = i}
PairsTo(j)   == {p \in SeqRange(last'.pairs) : p[2] = j}
AliquotExact ==
  [][(IsOp("transfer") /\ Ok /\ last'.overlap \in {"none", "disjoint"} /\ last'.cls # "degenerate") =>
       LET e == last' IN
       /\ \A p \in SeqRange(e.pairs) :
            LET sw == ves[e.sn].w[p[1]]
                sw2 == ves'[e.sn].w[p[1]]
                k == Cardinality(PairsFrom(p[1]))
                lost == Minus(sw.c, sw2.c)
            IN  /\ Measure(lost, e.u) = Mul(I(k), e.q)                       \* size
                /\ \A s \in Subst : Mul(lost[s], Measure(sw.c, e.u)) = Mul(sw.c[s], Mul(I(k), e.q))  \* uniform
       /\ \A j \in {p[2] : p \in SeqRange(e.pairs)} :
            LET gain == Minus(ves'[e.dn].w[j].c, ves[e.dn].w[j].c)
            IN  Measure(gain, e.u) = Mul(I(Cardinality(PairsTo(j))), e.q)]_vars

\* C07/C17: remove deletes exactly the selected substances on exactly the addressed wells
RemoveExact ==
  [][IsOp("remove") => \A i \in DOMAIN ves[last'.n].w : \A s \in Subst :
        ves'[last'.n].w[i].c[s] =
          IF i \in SeqRange(last'.wells) /\ Selected(last'.what, s) THEN Zero ELSE ves[last'.n].w[i].c[s]]_vars

OnlyVessel(n) == \A m \in Names \ {n} : ves'[m] = ves[m]

\* C11: fill_to reaches the target total by adding only solvent, on exactly the addressed wells
FillReaches ==
  [][(IsOp("fill_to") /\ Ok) =>
       /\ OnlyVessel(last'.n)
       /\ \A i \in DOMAIN ves[last'.n].w :
            IF i \in SeqRange(last'.wells)
            THEN /\ Measure(ves'[last'.n].w[i].c, last'.u) = last'.T
                 /\ \A s \in Subst \ {last'.solvent} : ves'[last'.n].w[i].c[s] = ves[last'.n].w[i].c[s]
                 /\ Le(ves[last'.n].w[i].c[last'.solvent], ves'[last'.n].w[i].c[last'.solvent])
            ELSE ves'[last'.n].w[i] = ves[last'.n].w[i]]_vars

DiluteReaches ==
  [][(IsOp("dilute") /\ Ok) =>
       LET e == last'
           c1 == ves[e.n].w[1].c
           c2 == ves'[e.n].w[1].c
       IN  /\ OnlyVessel(e.n)
           /\ Conc(c2, e.solute, e.nu, e.du) = e.t
           /\ \A s \in Subst \ {e.solvent} : c2[s] = c1[s]
           /\ Le(c1[e.solvent], c2[e.solvent])]_vars

\* C05: create_solution meets every stated constraint with only the named substances
SolutionMeets ==
  [][(IsOp("create_solution") /\ Ok) =>
       LET e == last'
           x == ves'[e.n].w[1].c
           c == [solutes |-> e.solutes, given |-> e.given, nu |-> e.nu, du |-> e.du, qu |-> e.qu, tu |-> e.tu,
                 solventHoldsSolute |-> (e.solvIsVessel /\ \E i \in DOMAIN e.solutes : ~IsZero(ves[e.solvent].w[1].c[e.solutes[i]]))]
           inp == [conc |-> e.conc, qty |-> e.qty, total |-> e.total]
       IN  /\ Meets(x, c, inp)
           /\ NonNegC(x)
           /\ e.solvIsVessel => \A s \in Subst :       \* residual + solution = solvent container + solutes added
                 Add(ves'[e.solvent].w[1].c[s], x[s]) = Add(ves[e.solvent].w[1].c[s], SolutesC(e.solutes, e.xs)[s])]_vars

\* C12: create_solution_from reaches concentration and total, and conserves material
StockConserves ==
  [][(IsOp("create_solution_from") /\ Ok) =>
       LET e == last'
           x == ves'[e.n].w[1].c
       IN  /\ Conc(x, e.solute, e.nu, e.du) = e.t
           /\ Measure(x, e.tu) = e.total
           /\ \A s \in Subst :
                LET before == Add(ves[e.src].w[1].c[s], IF e.solvIsVessel THEN ves[e.solvent].w[1].c[s] ELSE Zero)
                    after  == Add(Add(ves'[e.src].w[1].c[s], x[s]), IF e.solvIsVessel THEN ves'[e.solvent].w[1].c[s] ELSE Zero)
                    added  == IF ~e.solvIsVessel /\ s = e.solvent THEN e.y ELSE Zero
                IN  after = Add(before, added)]_vars
=============================================================================
