-------------------------------- MODULE Chem --------------------------------
(***************************************************************************)
(* Substances and the measures of a mixture.                               *)
(*                                                                         *)
(* A mixture ("contents") is a function from substances to the amount held *)
(* in the substance's own amount unit: moles for solids and liquids,       *)
(* activity units for enzymes.  One amount unit of substance s occupies    *)
(* VolPer[s] volume units and weighs MassPer[s] mass units; the numeric    *)
(* instantiation of the harness turns these into a molecular weight, a     *)
(* density and a specific activity.  The table is chosen so that the four  *)
(* measures of any mixture are pairwise different, i.e. a wrong            *)
(* denominator can never coincide with the right one.                      *)
(*                                                                         *)
(*   W  liquid  (water-like)       VolPer 1  MassPer 1                     *)
(*   D  liquid  (dense)            VolPer 2  MassPer 4                     *)
(*   N  solid                      VolPer 3  MassPer 3                     *)
(*   M  solid   (heavy)            VolPer 5  MassPer 5                     *)
(*   E  enzyme                     VolPer 1  MassPer 1/10                  *)
(*   F  enzyme (another lot of E)  VolPer 1  MassPer 1/4                   *)
(*                                                                         *)
(* Solids take the configured default density, hence VolPer = MassPer.     *)
(* These are the DEFINITIONS every observer of the library has to agree    *)
(* with (property C10) and every operation is specified in terms of.       *)
(***************************************************************************)
EXTENDS Rat, FiniteSets

CONSTANT Subst          \* the substances of this model instance, a subset of DOMAIN Kind

\* F is a second LOT of the enzyme E: the harness gives it E's name and a different specific activity
Kind    == [W |-> "liquid", D |-> "liquid", N |-> "solid", M |-> "solid", E |-> "enzyme", F |-> "enzyme"]
VolPer  == [W |-> I(1), D |-> I(2), N |-> I(3), M |-> I(5), E |-> I(1), F |-> I(1)]
MassPer == [W |-> I(1), D |-> I(4), N |-> I(3), M |-> I(5), E |-> R(1, 10), F |-> R(1, 4)]

IsEnzyme(s) == Kind[s] = "enzyme"
IsLiquid(s) == Kind[s] = "liquid"
IsSolid(s)  == Kind[s] = "solid"

QUnits == {"L", "g", "mol", "U"}     \* the base units a quantity can be given in

\* how much one amount unit of s measures in base unit u
PerUnit(s, u) ==
  CASE u = "L"   -> VolPer[s]
    [] u = "g"   -> MassPer[s]
    [] u = "mol" -> IF IsEnzyme(s) THEN Zero ELSE One
    [] u = "U"   -> IF IsEnzyme(s) THEN One ELSE Zero

\* measure of amount x of the single substance s in unit u
Single1(s, x, u) == Mul(x, PerUnit(s, u))

Empty == [s \in Subst |-> Zero]

\* total measure of a mixture in unit u:
\*   "L" total volume, "g" total mass, "mol" total moles of non-enzymes, "U" total enzyme activity
Measure(c, u) == SumOver(Subst, [s \in Subst |-> Single1(s, c[s], u)])

Volume(c)   == Measure(c, "L")
Mass(c)     == Measure(c, "g")
Moles(c)    == Measure(c, "mol")
Activity(c) == Measure(c, "U")

Support(c) == {s \in Subst : ~IsZero(c[s])}

\* concentration of solute s in mixture c, numerator unit nu over denominator unit du
\* (defined when the denominator measure is non-zero)
Conc(c, s, nu, du) == Div(Single1(s, c[s], nu), Measure(c, du))

Scale(c, f)   == [s \in Subst |-> Mul(c[s], f)]
Plus(c1, c2)  == [s \in Subst |-> Add(c1[s], c2[s])]
Minus(c1, c2) == [s \in Subst |-> Sub(c1[s], c2[s])]
Only(s, x)    == [t \in Subst |-> IF t = s THEN x ELSE Zero]

NonNegC(c) == \A s \in Subst : ~IsNeg(c[s])

\* largest denominator in a mixture (for the lattice bound of an instance)
MaxDenC(c) == LET ds == {Den(c[s]) : s \in Subst} IN CHOOSE d \in ds : \A e \in ds : e <= d

\* classes of substances selectable by remove(): a substance name or a kind
Selected(what, s) == what = s \/ what = Kind[s]
=============================================================================
