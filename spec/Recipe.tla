------------------------------- MODULE Recipe -------------------------------
(***************************************************************************)
(* The Recipe API of PyPlate: lifecycle discipline (C16), deferred program *)
(* and bake (C08), and the per-step ledger that the three tracking queries *)
(* read (C09, C15, C17).                                                   *)
(*                                                                         *)
(* The variable ves inherited from Lab.tla is used as the GHOST eager      *)
(* state: every accepted step-adding call is applied at once to ves with   *)
(* the operators of the direct API (Lab.tla), so `ves` is the fold of the  *)
(* program over the declared objects.  Bake is specified as returning that *)
(* state under the declared names (BakeEqualsEager is then true by         *)
(* construction and the implementation is held to it), the ledger `snaps`  *)
(* records the state before/after every step, and the tracking queries are *)
(* operators over the ledger.                                              *)
(*                                                                         *)
(* A call is a record; the alphabet of an instance is a sequence of calls: *)
(*  [call |-> "uses", o]                          o: a pool object id      *)
(*  [call |-> "uses_list", os]                    os: sequence of pool ids  *)
(*  [call |-> "create_container", n, cap, entries]                         *)
(*  [call |-> "create_solution", n, solute, solvent, q, qu, total, tu]     *)
(*  [call |-> "create_solution_from", src, n, solute, solvent, t, nu, du,  *)
(*            total, tu]                                                   *)
(*  [call |-> "transfer", sn, sr, dn, dr, q, u]                            *)
(*  [call |-> "remove", n, r, what]                                        *)
(*  [call |-> "dilute", n, solute, nu, du, solvent, t, rename]             *)
(*      (rename: the new_name given to the diluted container, "-" if none) *)
(*  [call |-> "fill_to", n, r, solvent, u, T]                              *)
(*  [call |-> "start_stage", name]  [call |-> "end_stage", name]           *)
(*  [call |-> "bake"]                                                      *)
(* Pool objects are identified by an id; ObjName[id] is the name the       *)
(* object carries (two different objects may carry the same name).         *)
(***************************************************************************)
EXTENDS Lab

CONSTANTS Alphabet,     \* sequence of calls
          ObjName,      \* [pool object id -> name]; ids of objects that exist outside the recipe
          AutoUses,     \* TRUE: a step-adding call first declares its undeclared operands (program instances)
          MaxCalls,     \* bound on the number of API calls in a behaviour
          Life,         \* TRUE: lifecycle instance - the VIEW abstracts from the program's content
          DSets         \* sequence of destination sets for get_substance_used: sets of names; {"*plates*"} stands for the default "all plates"

VARIABLE rs
rvars == <<ves, last, rs>>

ASSUME PrintT(ToJson([rconfig |-> [objname |-> ObjName, dsets |-> DSets]]))

Pool == CHOOSE v \in InitVes : TRUE          \* the declared originals (and placeholders of creatable names)

RInit == /\ ves = Pool
         /\ last = [op |-> "init"]
         /\ rs = [decl |-> <<>>, used |-> {}, prog |-> <<>>, stages |-> <<>>, cur |-> "all", curStart |-> 0,
                  locked |-> FALSE, dead |-> FALSE, snaps |-> <<Pool>>, trash |-> <<>>, clss |-> <<>>, doomed |-> 0,
                  calls |-> <<>>]

Declared == {rs.decl[i] : i \in DOMAIN rs.decl}
StageNames == {rs.stages[i].name : i \in DOMAIN rs.stages}
NSteps == Len(rs.prog)

-----------------------------------------------------------------------------
(* forward forms of the two solution operations (the direct-API tables of  *)
(* Lab.tla are built by inverse construction; inside a recipe the operands *)
(* have evolved, so the request is solved on the current state)            *)

\* create_solution(solute, solvent, quantity = q [qu], total_quantity = total [tu]); solvent pure or a container
SolQtV(V, c) ==
  LET xs == Div(c.q, PerUnit(c.solute, c.qu))
      vessel == c.solvent \in Names
      sc == IF vessel THEN V[c.solvent].w[1].c ELSE Only(c.solvent, One)
      mol == IF vessel THEN Moles(sc) ELSE One
      rest == Sub(c.total, Single1(c.solute, xs, c.tu))                 \* what the solvent has to contribute
  IN  IF IsZero(mol) \/ IsZero(Measure(sc, c.tu)) THEN [ok |-> FALSE, V |-> V, cls |-> "no_solvent"]
      ELSE LET y == Div(Mul(rest, mol), Measure(sc, c.tu))                \* moles of solvent (mixture) needed
               portion == Scale(sc, Div(y, mol))
               x == Plus(Only(c.solute, xs), portion)
           IN  IF ~IsPos(y) \/ ~IsPos(xs) THEN [ok |-> FALSE, V |-> V, cls |-> "nonpositive"]
               ELSE IF vessel /\ Lt(mol, y) THEN [ok |-> FALSE, V |-> V, cls |-> "overdraw"]
               ELSE LET V1 == [V EXCEPT ![c.n] = [cap |-> Inf, w |-> <<MkWell(x)>>]]
                        V2 == IF vessel THEN [V1 EXCEPT ![c.solvent].w[1] = MkWell(Minus(sc, portion))] ELSE V1
                    IN  [ok |-> TRUE, V |-> V2, cls |-> IF vessel /\ y = mol THEN "boundary" ELSE "interior"]

\* create_solution_from(src, solute, concentration t [nu/du], pure solvent, quantity total [tu])
FromFwdV(V, c) ==
  LET sc == V[c.src].w[1].c
      a11 == Sub(Single1(c.solute, sc[c.solute], c.nu), Mul(c.t, Measure(sc, c.du)))
      a12 == Neg(Mul(c.t, PerUnit(c.solvent, c.du)))
      a21 == Measure(sc, c.tu)
      a22 == PerUnit(c.solvent, c.tu)
      det == Sub(Mul(a11, a22), Mul(a12, a21))
  IN  IF IsZero(sc[c.solute]) THEN [ok |-> FALSE, V |-> V, cls |-> "no_solute"]
      ELSE IF IsZero(det) THEN [ok |-> FALSE, V |-> V, cls |-> "conc_unreachable"]
      ELSE LET fx == Div(Neg(Mul(a12, c.total)), det)        \* fraction of the source taken
               y  == Div(Mul(a11, c.total), det)              \* amount of pure solvent added
               px == Scale(sc, fx)
               x  == Plus(px, Only(c.solvent, y))
           IN  IF IsNeg(fx) \/ IsNeg(y) THEN [ok |-> FALSE, V |-> V, cls |-> "conc_unreachable"]
               ELSE IF Lt(One, fx) THEN [ok |-> FALSE, V |-> V, cls |-> "stock_exceeded"]
               ELSE LET V1 == [V EXCEPT ![c.n] = [cap |-> Inf, w |-> <<MkWell(x)>>]]
                        V2 == [V1 EXCEPT ![c.src].w[1] = MkWell(Minus(sc, px))]
                    IN  [ok |-> TRUE, V |-> V2,
                         cls |-> IF IsZero(y) \/ IsZero(fx) \/ fx = One THEN "boundary" ELSE "interior"]

\* one step applied to the eager state: [ok, V, cls, trash]
ApplyStep(V, st) ==
  CASE st.call = "transfer" ->
         LET r == TransferOp(V, [sn |-> st.sn, sr |-> st.sr, dn |-> st.dn, dr |-> st.dr], st.q, st.u)
         IN  [ok |-> r.ok, V |-> r.V, cls |-> r.cls, trash |-> Empty]
    [] st.call = "remove" ->
         [ok |-> TRUE, V |-> RemoveV(V, st), cls |-> "interior", trash |-> RemovedV(V, st)]
    [] st.call = "fill_to" ->
         LET r == FillV(V, st, st.T) IN [ok |-> r.ok, V |-> r.V, cls |-> r.cls, trash |-> Empty]
    [] st.call = "dilute" ->
         LET r == DiluteV(V, st, st.t) IN [ok |-> r.ok, V |-> r.V, cls |-> r.cls, trash |-> Empty]
    [] st.call = "create_container" ->
         LET r == NewV(V, st) IN [ok |-> r.ok, V |-> r.V, cls |-> r.cls, trash |-> Empty]
    [] st.call = "create_solution" ->
         LET r == SolQtV(V, st) IN [ok |-> r.ok, V |-> r.V, cls |-> r.cls, trash |-> Empty]
    [] st.call = "create_solution_from" ->
         LET r == FromFwdV(V, st) IN [ok |-> r.ok, V |-> r.V, cls |-> r.cls, trash |-> Empty]

\* the names a step touches as source / destination (RecipeStep.frm / .to) and the names it marks as used
StepFrm(st) == CASE st.call = "transfer" -> st.sn [] st.call = "create_solution_from" -> st.src [] OTHER -> "-"
StepTo(st)  == CASE st.call = "transfer" -> st.dn [] OTHER -> st.n
StepUses(st) ==
  CASE st.call = "transfer" -> {st.sn, st.dn}
    [] st.call = "create_solution" -> {st.n} \cup (IF st.solvent \in Names THEN {st.solvent} ELSE {})
    [] st.call = "create_solution_from" -> {st.src, st.n}
    [] OTHER -> {st.n}

\* operands that must have been declared, and the name a create_* call introduces
Operands(c) ==
  CASE c.call = "transfer" -> {c.sn, c.dn}
    [] c.call \in {"remove", "dilute", "fill_to"} -> {c.n}
    [] c.call = "create_solution" -> IF c.solvent \in Names THEN {c.solvent} ELSE {}
    [] c.call = "create_solution_from" -> {c.src}
    [] OTHER -> {}
Creates(c) == c.call \in {"create_container", "create_solution", "create_solution_from"}
StepAdding(c) == c.call \in {"transfer", "remove", "dilute", "fill_to", "create_container", "create_solution",
                             "create_solution_from"}

\* the placeholder a create_* call declares (an empty container of the stated / unbounded capacity)
Placeholder(c) == [cap |-> IF c.call = "create_container" THEN c.cap ELSE Inf, w |-> <<EmptyWell>>]

-----------------------------------------------------------------------------
(* the API calls *)
Finish(c, res, cls, nrs, nves) ==
  /\ rs' = [nrs EXCEPT !.calls = Append(rs.calls, c)]
  /\ ves' = nves
  /\ last' = [op |-> "call", call |-> c, res |-> res, cls |-> cls, history |-> rs.calls,
              nsteps |-> Len(nrs.prog), decl |-> nrs.decl, locked |-> nrs.locked, dead |-> nrs.dead,
              cur |-> nrs.cur, curStart |-> nrs.curStart, stageNames |-> {nrs.stages[i].name : i \in DOMAIN nrs.stages}]

Refuse(c, res, cls) == Finish(c, res, cls, rs, ves)

Uses(c) ==
  LET nm == ObjName[c.o] IN
  IF rs.locked THEN Refuse(c, "RuntimeError", "locked")
  ELSE IF nm \in Declared THEN Refuse(c, "refused", "duplicate_name")
  ELSE Finish(c, "ok", "declared", [rs EXCEPT !.decl = Append(@, nm)], ves)

\* uses([o1, o2, ...]) / uses(o1, o2, ...): the objects are declared one after the other, as separate uses() calls would;
\* the first one whose name exists already (also a name introduced earlier in the same list) makes the call fail, and what
\* was declared before it stays declared
RECURSIVE DeclareAll(_, _)
DeclareAll(decl, os) ==
  IF os = <<>> THEN [decl |-> decl, ok |-> TRUE]
  ELSE LET nm == ObjName[Head(os)] IN
       IF \E i \in DOMAIN decl : decl[i] = nm THEN [decl |-> decl, ok |-> FALSE]
       ELSE DeclareAll(Append(decl, nm), Tail(os))
UsesList(c) ==
  IF rs.locked THEN Refuse(c, "RuntimeError", "locked")
  ELSE LET r == DeclareAll(rs.decl, c.os) IN
       Finish(c, IF r.ok THEN "ok" ELSE "refused", IF r.ok THEN "declared" ELSE "duplicate_name", [rs EXCEPT !.decl = r.decl], ves)

\* declare, in order, the operands of c that exist outside the recipe and are not declared yet (AutoUses)
PoolNames == {ObjName[o] : o \in DOMAIN ObjName}
AutoDeclared(c) ==
  LET need == (Operands(c) \ Declared) \cap PoolNames IN
  IF c.call = "transfer" /\ c.sn \in need /\ c.dn \in need /\ c.sn # c.dn
  THEN [rs EXCEPT !.decl = Append(Append(@, c.sn), c.dn)]                 \* source before destination
  ELSE IF need = {} THEN rs
  ELSE [rs EXCEPT !.decl = Append(@, CHOOSE x \in need : TRUE)]           \* at most one name otherwise

StepCall(c) ==
  IF rs.locked THEN Refuse(c, "RuntimeError", "locked")
  ELSE LET r0 == IF AutoUses THEN AutoDeclared(c) ELSE rs
           decl0 == {r0.decl[i] : i \in DOMAIN r0.decl}
       IN  \* (a refusal keeps whatever was declared on the way, as separate uses() calls would)
           IF ~(Operands(c) \subseteq decl0) THEN Finish(c, "refused", "undeclared", r0, ves)
           ELSE IF Creates(c) /\ c.n \in decl0 THEN Finish(c, "refused", "duplicate_name", r0, ves)
           ELSE LET V0 == IF Creates(c) THEN [ves EXCEPT ![c.n] = Placeholder(c)] ELSE ves
                    r1 == [r0 EXCEPT !.decl = IF Creates(c) THEN Append(@, c.n) ELSE @,
                                     !.prog = Append(@, c),
                                     !.used = @ \cup StepUses(c)]
                    ap == IF rs.doomed = 0 THEN ApplyStep(V0, c) ELSE [ok |-> FALSE, V |-> V0, cls |-> "after_doom", trash |-> Empty]
                    r2 == [r1 EXCEPT !.snaps = Append(@, IF ap.ok THEN ap.V ELSE V0),
                                     !.trash = Append(@, IF ap.ok THEN ap.trash ELSE Empty),
                                     !.clss = Append(@, ap.cls),
                                     !.doomed = IF rs.doomed = 0 /\ ~ap.ok THEN Len(r1.prog) ELSE @]
                IN  Finish(c, "ok", ap.cls, r2, IF ap.ok THEN ap.V ELSE V0)

\* (after a bake that failed part-way the stage bookkeeping is no longer specified - the implementation may or may not have
\* closed the open stage - but the recipe is NOT locked: a stage call must not raise RuntimeError)
StartStage(c) ==
  IF rs.locked THEN Refuse(c, "RuntimeError", "locked")
  ELSE IF rs.dead THEN Refuse(c, "notRuntimeError", "after_failed_bake")
  ELSE IF c.name \in StageNames \cup {"all"} THEN Refuse(c, "refused", "stage_name_exists")
  ELSE IF rs.cur # "all" THEN Refuse(c, "refused", "stage_open")
  ELSE Finish(c, "ok", "stage", [rs EXCEPT !.cur = c.name, !.curStart = NSteps], ves)

EndStage(c) ==
  IF rs.locked THEN Refuse(c, "RuntimeError", "locked")
  ELSE IF rs.dead THEN Refuse(c, "notRuntimeError", "after_failed_bake")
  ELSE IF c.name = "all" \/ rs.cur # c.name THEN Refuse(c, "refused", "stage_mismatch")
  ELSE Finish(c, "ok", "stage", [rs EXCEPT !.stages = Append(@, [name |-> c.name, lo |-> rs.curStart, hi |-> NSteps]),
                                           !.cur = "all"], ves)

-----------------------------------------------------------------------------
(* the ledger and the tracking queries *)
Amt(V, o, s) == SumSeq([i \in DOMAIN V[o].w |-> V[o].w[i].c[s]])
IsPlateName(o) == ~IsC(o)

\* timeframe -> [lo, hi): steps lo+1 .. hi
Frame(stages, nsteps, tf) ==
  IF tf = "all" THEN [lo |-> 0, hi |-> nsteps]
  ELSE LET i == CHOOSE j \in DOMAIN stages : stages[j].name = tf IN [lo |-> stages[i].lo, hi |-> stages[i].hi]

DestSet(D, decl) == IF D = {"*plates*"} THEN {o \in decl : IsPlateName(o)} ELSE D \cap decl

\* C09: net gain of the destinations over the timeframe plus what remove steps discarded in it
UsedQ(r, s, tf, D) ==
  LET fr == Frame(r.stages, Len(r.prog), tf)
      dset == DestSet(D, {r.decl[i] : i \in DOMAIN r.decl})
      gain == SumOver(dset, [o \in dset |-> Sub(Amt(r.snaps[fr.hi + 1], o, s), Amt(r.snaps[fr.lo + 1], o, s))])
      disc == SumSeq([k \in 1..(fr.hi - fr.lo) |-> r.trash[fr.lo + k][s]])
  IN  Add(gain, disc)

\* C15: total content of every well of object o in the four dimensions
Dims == <<"L", "g", "mol", "U">>
Content4(V, o) == [i \in DOMAIN V[o].w |-> [d \in 1..4 |-> Measure(V[o].w[i].c, Dims[d])]]

Touches(st, o) == o \in StepUses(st)
TouchedIn(r, o, tf) == LET fr == Frame(r.stages, Len(r.prog), tf) IN \E k \in (fr.lo + 1)..fr.hi : Touches(r.prog[k], o)

\* flows per well and dimension: sum over the steps of the timeframe of the positive / negative part of the
\* change of the total content
FlowQ(r, o, tf) ==
  LET fr == Frame(r.stages, Len(r.prog), tf)
      delta(k, i, d) == Sub(Measure(r.snaps[k + 1][o].w[i].c, Dims[d]), Measure(r.snaps[k][o].w[i].c, Dims[d]))
      nw == Len(r.snaps[1][o].w)
  IN  [in  |-> [i \in 1..nw |-> [d \in 1..4 |-> SumSeq([k \in 1..(fr.hi - fr.lo) |-> PosPart(delta(fr.lo + k, i, d))])]],
       out |-> [i \in 1..nw |-> [d \in 1..4 |-> SumSeq([k \in 1..(fr.hi - fr.lo) |-> NegPart(delta(fr.lo + k, i, d))])]]]

Battery(r) ==
  LET tfs == <<"all">> \o [i \in DOMAIN r.stages |-> r.stages[i].name]
      decl == r.decl
  IN  [used |-> [t \in DOMAIN tfs |-> [j \in DOMAIN DSets |->
                   [s \in Subst |-> UsedQ(r, s, tfs[t], DSets[j])]]],
       objs |-> [t \in DOMAIN tfs |-> [j \in DOMAIN decl |->
                   LET fr == Frame(r.stages, Len(r.prog), tfs[t]) IN
                   [touched |-> TouchedIn(r, decl[j], tfs[t]),
                    before |-> Content4(r.snaps[fr.lo + 1], decl[j]),
                    after  |-> Content4(r.snaps[fr.hi + 1], decl[j]),
                    flows  |-> FlowQ(r, decl[j], tfs[t])]]],
       tfs |-> tfs]

Bake(c) ==
  IF rs.locked THEN Refuse(c, "RuntimeError", "locked")
  ELSE LET closed == IF rs.cur # "all"
                     THEN [rs EXCEPT !.stages = Append(@, [name |-> rs.cur, lo |-> rs.curStart, hi |-> NSteps]), !.cur = "all"]
                     ELSE rs
       IN  IF Declared # rs.used
           THEN Refuse(c, "refused", "unused_object")         \* nothing happens: the recipe can be completed and baked
           ELSE IF rs.doomed > 0
           THEN /\ rs' = [rs EXCEPT !.dead = TRUE, !.calls = Append(rs.calls, c)]
                /\ ves' = ves
                /\ last' = [op |-> "call", call |-> c, res |-> "ValueError", cls |-> "step_infeasible", history |-> rs.calls,
                            nsteps |-> NSteps, decl |-> rs.decl, locked |-> FALSE, dead |-> TRUE, clss |-> rs.clss, prog |-> rs.prog]
           ELSE /\ rs' = [closed EXCEPT !.locked = TRUE, !.calls = Append(rs.calls, c)]
                /\ ves' = ves
                /\ last' = [op |-> "call", call |-> c, res |-> "ok", cls |-> "baked", history |-> rs.calls,
                            nsteps |-> NSteps, decl |-> rs.decl, locked |-> TRUE, dead |-> FALSE,
                            cur |-> "all", stageNames |-> {closed.stages[i].name : i \in DOMAIN closed.stages},
                            results |-> [i \in DOMAIN rs.decl |-> ves[rs.decl[i]]],
                            stages |-> closed.stages, prog |-> rs.prog, clss |-> rs.clss,
                            \* the ledger and the answers of the tracking queries (omitted by the lifecycle instance)
                            snaps |-> IF Life THEN <<>> ELSE rs.snaps, trash |-> IF Life THEN <<>> ELSE rs.trash,
                            battery |-> IF Life THEN <<>> ELSE Battery(closed)]

Do(c) == CASE c.call = "uses" -> Uses(c)
           [] c.call = "uses_list" -> UsesList(c)
           [] StepAdding(c) -> StepCall(c)
           [] c.call = "start_stage" -> StartStage(c)
           [] c.call = "end_stage" -> EndStage(c)
           [] c.call = "bake" -> Bake(c)

\* (a program is extended only from states on the instance's lattice: DenOK keeps TLC's 32-bit rationals in range)
\* (after a bake that failed on an infeasible step the results are no longer specified and baking again is not generated; the
\* recipe is, however, not locked: declaring and step-adding calls keep their discipline, which is explored)
RStep == /\ DenOK
         /\ Len(rs.calls) < MaxCalls
         /\ \E i \in DOMAIN Alphabet : InShard(i) /\ (rs.dead => Alphabet[i].call # "bake") /\ Do(Alphabet[i])

REmit == PrintT(ToJson(last'))
RNext == RStep /\ REmit
RSpec == RInit /\ [][RNext]_rvars
RSpecQuiet == RInit /\ [][RStep]_rvars

\* VIEW: the lifecycle instance abstracts from the content of the program (and from the ghost state), so that the
\* bounded call graph is explored per abstract lifecycle state; program instances keep the whole state
\* a bake was refused earlier (declared but unused) and the recipe went on: part of the view of a program instance, so that
\* programs continued after a refused bake are explored as well (the refusal must have changed nothing: C16, C09, C15)
BakeRefusedBefore == ~rs.locked /\ \E i \in DOMAIN rs.calls : rs.calls[i].call = "bake"
RView == IF Life
         THEN <<rs.decl, rs.used, rs.stages, rs.cur, rs.curStart, rs.locked, rs.dead, Len(rs.prog), rs.doomed > 0>>
         ELSE <<ves, rs.decl, rs.used, rs.prog, rs.stages, rs.cur, rs.curStart, rs.locked, rs.dead, rs.doomed, BakeRefusedBefore>>

RBound == DenOK

-----------------------------------------------------------------------------
(* properties *)
\* C16
OneOpenStage == rs.cur = "all" \/ rs.cur \notin StageNames
StageNamesUnique == \A i, j \in DOMAIN rs.stages : rs.stages[i].name = rs.stages[j].name => i = j
StagesWellFormed == \A i \in DOMAIN rs.stages : 0 <= rs.stages[i].lo /\ rs.stages[i].lo <= rs.stages[i].hi /\ rs.stages[i].hi <= NSteps
BakeClosesStage == rs.locked => rs.cur = "all"
LockedFreezes == [][rs.locked => (rs'.prog = rs.prog /\ rs'.decl = rs.decl /\ rs'.stages = rs.stages /\ rs'.snaps = rs.snaps
                                   /\ rs'.locked /\ ves' = ves)]_rvars
LockedRefuses == [][rs.locked => last'.res = "RuntimeError"]_rvars
DeclaredNamesUnique == \A i, j \in DOMAIN rs.decl : rs.decl[i] = rs.decl[j] => i = j
OnlyDeclaredUsed == rs.used \subseteq Declared
BakeOnlyWhenAllUsed == rs.locked => Declared = rs.used

\* C08: the ledger is the eager fold (ghost = last snapshot; no step-adding call changes a declared original's
\* snapshot 0), and a doomed program never bakes
LedgerIsFold == /\ Len(rs.snaps) = NSteps + 1 /\ Len(rs.trash) = NSteps
                /\ rs.snaps[1] = Pool
                /\ (rs.doomed = 0 => rs.snaps[NSteps + 1] = ves)
                /\ \A k \in 1..NSteps : (rs.doomed = 0 \/ k < rs.doomed) =>
                      LET V0 == IF Creates(rs.prog[k]) THEN [rs.snaps[k] EXCEPT ![rs.prog[k].n] = Placeholder(rs.prog[k])] ELSE rs.snaps[k]
                      IN  ApplyStep(V0, rs.prog[k]).ok /\ ApplyStep(V0, rs.prog[k]).V = rs.snaps[k + 1]
DoomedNeverBakes == rs.locked => rs.doomed = 0

\* C09: stage additivity - stages that tile the recipe sum to 'all'
Tiles == /\ rs.stages # <<>>
         /\ rs.stages[1].lo = 0 /\ rs.stages[Len(rs.stages)].hi = NSteps
         /\ \A i \in 1..(Len(rs.stages) - 1) : rs.stages[i].hi = rs.stages[i + 1].lo
StageAdditivity ==
  (rs.locked /\ Tiles) => \A s \in Subst : \A j \in DOMAIN DSets :
     UsedQ(rs, s, "all", DSets[j]) = SumSeq([i \in DOMAIN rs.stages |-> UsedQ(rs, s, rs.stages[i].name, DSets[j])])

\* C15: inflow - outflow = remaining(after) - remaining(before), per well and dimension; flows are non-negative
FlowBalance ==
  rs.locked => \A j \in DOMAIN rs.decl : \A t \in {"all"} \cup StageNames :
     LET o == rs.decl[j]
         fr == Frame(rs.stages, NSteps, t)
         f == FlowQ(rs, o, t)
         b == Content4(rs.snaps[fr.lo + 1], o)
         a == Content4(rs.snaps[fr.hi + 1], o)
     IN  \A i \in DOMAIN f.in : \A d \in 1..4 :
            /\ Sub(f.in[i][d], f.out[i][d]) = Sub(a[i][d], b[i][d])
            /\ ~IsNeg(f.in[i][d]) /\ ~IsNeg(f.out[i][d])

\* C17: what a remove step records as discarded is what left the wells
TrashIsRemoved ==
  \A k \in 1..NSteps : (rs.doomed = 0 \/ k < rs.doomed) =>
     \A s \in Subst :
        rs.trash[k][s] = IF rs.prog[k].call = "remove"
                         THEN Sub(Amt(rs.snaps[k], rs.prog[k].n, s), Amt(rs.snaps[k + 1], rs.prog[k].n, s))
                         ELSE Zero
=============================================================================
