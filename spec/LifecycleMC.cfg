SPECIFICATION LSpec
CONSTANTS
  NameUniverse = {"a", "b", "c"}
  StageUniverse = {"s1", "s2", "all"}
INVARIANT LOneOpenStage
INVARIANT LLockedMeansAllUsed
PROPERTY LLockedFreezes
CHECK_DEADLOCK FALSE
