-------------------------------- MODULE Rat --------------------------------
(***************************************************************************)
(* Exact rational arithmetic for TLC.                                      *)
(*                                                                         *)
(* A rational is a pair <<n, d>> of integers with d > 0 and gcd(|n|,d) = 1 *)
(* (canonical form, so TLA+ equality is numeric equality).  TLC's integers *)
(* are 32 bit and TLC raises an error on overflow (it never wraps          *)
(* silently), so every product is cross-reduced by the relevant gcd        *)
(* *before* multiplying; within the denominators a model instance admits   *)
(* (its DenBound) no intermediate value leaves the 32-bit range.           *)
(***************************************************************************)
EXTENDS Integers, Sequences

Abs(x) == IF x < 0 THEN -x ELSE x

RECURSIVE GCD(_, _)
GCD(a, b) == IF b = 0 THEN a ELSE GCD(b, a % b)

\* canonical form of n/d for d > 0
Norm(n, d) == LET g == GCD(Abs(n), d) IN IF g = 0 THEN <<0, 1>> ELSE <<n \div g, d \div g>>

R(n, d) == Norm(n, d)          \* constructor for literals: R(5, 3)
I(n)    == <<n, 1>>            \* integer literal
Zero    == <<0, 1>>
One     == <<1, 1>>

IsRat(x) == /\ x \in Int \X Int
            /\ x[2] > 0
            /\ GCD(Abs(x[1]), x[2]) = 1

Num(a) == a[1]
Den(a) == a[2]

Neg(a) == <<-a[1], a[2]>>

Add(a, b) ==
  LET g  == GCD(a[2], b[2])
      bd == b[2] \div g
      ad == a[2] \div g
  IN  Norm(a[1] * bd + b[1] * ad, ad * b[2])

Sub(a, b) == Add(a, Neg(b))

Mul(a, b) ==
  LET g1 == GCD(Abs(a[1]), b[2])
      g2 == GCD(Abs(b[1]), a[2])
  IN  IF a[1] = 0 \/ b[1] = 0 THEN Zero
      ELSE <<(a[1] \div g1) * (b[1] \div g2), (a[2] \div g2) * (b[2] \div g1)>>

Inv(a) == IF a[1] > 0 THEN <<a[2], a[1]>> ELSE <<-a[2], -a[1]>>     \* a # Zero

Div(a, b) == Mul(a, Inv(b))                                         \* b # Zero

\* comparison, cross-multiplied after removing the common factor of the denominators
Lt(a, b) == LET g == GCD(a[2], b[2]) IN a[1] * (b[2] \div g) < b[1] * (a[2] \div g)
Le(a, b) == LET g == GCD(a[2], b[2]) IN a[1] * (b[2] \div g) <= b[1] * (a[2] \div g)
Gt(a, b) == Lt(b, a)
Ge(a, b) == Le(b, a)

IsZero(a) == a[1] = 0
IsPos(a)  == a[1] > 0
IsNeg(a)  == a[1] < 0

RMin(a, b) == IF Le(a, b) THEN a ELSE b
RMax(a, b) == IF Le(a, b) THEN b ELSE a

\* positive part and negative part (both non-negative)
PosPart(a) == IF a[1] > 0 THEN a ELSE Zero
NegPart(a) == IF a[1] < 0 THEN Neg(a) ELSE Zero

RECURSIVE SumSeq(_)
SumSeq(s) == IF s = <<>> THEN Zero ELSE Add(Head(s), SumSeq(Tail(s)))

\* sum of f[x] over a finite set S (f : S -> Rat); order does not matter, canonical forms make it deterministic
RECURSIVE SumOver(_, _)
SumOver(S, f) == IF S = {} THEN Zero
                 ELSE LET x == CHOOSE y \in S : TRUE IN Add(f[x], SumOver(S \ {x}, f))
=============================================================================
