SPECIFICATION SpecQuiet
CONSTANTS
  Subst <- U_Subst
  Mantissas <- U_Mantissas
  Mode = "parse"
  MaxChain = 0
VIEW AllView
INVARIANT FamilyOneDenotation
INVARIANT EmitState
CHECK_DEADLOCK FALSE
