------------------------------- MODULE Slicer -------------------------------
(***************************************************************************)
(* Denotation of PyPlate's documented well-addressing grammar (property    *)
(* C13).  A selector is an abstract syntax tree (a record); Denote maps    *)
(* it, for a plate given by its row and column labels, to the sequence of  *)
(* wells selected (row-major; list order for lists) and the shape of the   *)
(* selection, or rejects it.                                               *)
(*                                                                         *)
(*   [k |-> "int",   i |-> 2]                       plate[2]     row 2     *)
(*   [k |-> "label", l |-> "B"]                     plate['B']   row 'B'   *)
(*   [k |-> "str",   r |-> "A", c |-> "1"]          plate['A:1']           *)
(*   [k |-> "pair",  a |-> X, b |-> Y]              plate[X, Y]            *)
(*   [k |-> "slice", lo |-> E, hi |-> E, st |-> S]  plate[lo:hi:st] (rows) *)
(*   [k |-> "list",  items |-> <<str | pair of singles>>]                  *)
(*                                                                         *)
(* X, Y are "int", "label" or "slice" nodes; E is [k |-> "none"], an "int" *)
(* or a "label" node; S is 0 (absent) or a positive integer.               *)
(*                                                                         *)
(* Documented meaning: integer indices are 1-based; labels and integers    *)
(* are interchangeable; 'A:1', ('A',1) and (1,1) are the same well; slices *)
(* include both end points; open ends run to the plate edge; step k takes  *)
(* every k-th row/column; wells come in row-major order; a list selects    *)
(* its wells in the order given; anything out of range or malformed is     *)
(* rejected.                                                               *)
(***************************************************************************)
EXTENDS Integers, Sequences, FiniteSets

Reject == [ok |-> FALSE]

None == [k |-> "none"]
IntN(i) == [k |-> "int", i |-> i]
Lbl(l)  == [k |-> "label", l |-> l]
Slc(lo, hi, st) == [k |-> "slice", lo |-> lo, hi |-> hi, st |-> st]
Pair(a, b) == [k |-> "pair", a |-> a, b |-> b]
Str(r, c) == [k |-> "str", r |-> r, c |-> c]
Lst(items) == [k |-> "list", items |-> items]
All == Slc(None, None, 0)

\* position of label l in the label sequence, 0 if absent
IndexOf(l, labels) == IF \E i \in DOMAIN labels : labels[i] = l
                      THEN CHOOSE i \in DOMAIN labels : labels[i] = l
                      ELSE 0

\* a single index (int or label node) on an axis: 0 = rejected
Single(x, labels) ==
  CASE x.k = "int"   -> IF 1 <= x.i /\ x.i <= Len(labels) THEN x.i ELSE 0
    [] x.k = "label" -> IndexOf(x.l, labels)
    [] OTHER         -> 0

IsSingleNode(x) == x.k \in {"int", "label"}

\* an arithmetic progression start, start+st, ... <= stop as a sequence
Range(start, stop, st) ==
  IF start > stop THEN <<>>
  ELSE [j \in 1..(((stop - start) \div st) + 1) |-> start + (j - 1) * st]

\* denotation of one axis selector: [ok, idx] with idx a sequence of 1-based positions
Axis(x, labels) ==
  LET n == Len(labels) IN
  CASE IsSingleNode(x) ->
         LET i == Single(x, labels) IN IF i = 0 THEN Reject ELSE [ok |-> TRUE, idx |-> <<i>>]
    [] x.k = "slice" ->
         LET lo == IF x.lo.k = "none" THEN 1 ELSE Single(x.lo, labels)
             hi == IF x.hi.k = "none" THEN n ELSE Single(x.hi, labels)
             st == IF x.st = 0 THEN 1 ELSE x.st
         IN  IF lo = 0 \/ hi = 0 \/ x.st < 0 THEN Reject
             ELSE [ok |-> TRUE, idx |-> Range(lo, hi, st)]
    [] OTHER -> Reject

\* row-major product of two index sequences
Product(rs, cs) ==
  [j \in 1..(Len(rs) * Len(cs)) |-> <<rs[((j - 1) \div Len(cs)) + 1], cs[((j - 1) % Len(cs)) + 1]>>]

AllIdx(labels) == [j \in 1..Len(labels) |-> j]

\* one element of a list selector: a single well <<r, c>> or <<0, 0>>
ListItem(x, rl, cl) ==
  CASE x.k = "str"  -> <<IndexOf(x.r, rl), IndexOf(x.c, cl)>>
    [] x.k = "pair" -> IF IsSingleNode(x.a) /\ IsSingleNode(x.b)
                       THEN <<Single(x.a, rl), Single(x.b, cl)>> ELSE <<0, 0>>
    [] OTHER        -> <<0, 0>>

Denote(sel, rl, cl) ==
  CASE sel.k \in {"int", "label", "slice"} ->
         LET r == Axis(sel, rl) IN
         IF ~r.ok THEN Reject
         ELSE [ok |-> TRUE, wells |-> Product(r.idx, AllIdx(cl)), shape |-> <<Len(r.idx), Len(cl)>>]
    [] sel.k = "str" ->
         LET w == ListItem(sel, rl, cl) IN
         IF w[1] = 0 \/ w[2] = 0 THEN Reject ELSE [ok |-> TRUE, wells |-> <<w>>, shape |-> <<1, 1>>]
    [] sel.k = "pair" ->
         LET r == Axis(sel.a, rl)
             c == Axis(sel.b, cl)
         IN  IF ~r.ok \/ ~c.ok THEN Reject
             ELSE [ok |-> TRUE, wells |-> Product(r.idx, c.idx), shape |-> <<Len(r.idx), Len(c.idx)>>]
    [] sel.k = "list" ->
         LET ws == [j \in DOMAIN sel.items |-> ListItem(sel.items[j], rl, cl)] IN
         IF \E j \in DOMAIN ws : ws[j][1] = 0 \/ ws[j][2] = 0 THEN Reject
         ELSE [ok |-> TRUE, wells |-> ws, shape |-> <<Len(ws)>>]
    [] OTHER -> Reject

(***************************************************************************)
(* Narrowing a rectangular selection: plate[sel][a, b] (Slicer.__getitem__)*)
(* a and b index the SELECTION, not the plate, the way Python indexes a    *)
(* list: 0-based, stop exclusive, positive step.  A node is                *)
(*   [k |-> "at", i |-> 2]                          the element at index 2 *)
(*   [k |-> "py", lo |-> L, hi |-> H, st |-> S]     [L:H:S]; -1 = absent   *)
(* The result is again a rectangular selection: rows(sel)[a] x cols(sel)[b]*)
(***************************************************************************)
PyAt(i) == [k |-> "at", i |-> i]
PySl(lo, hi, st) == [k |-> "py", lo |-> lo, hi |-> hi, st |-> st]
PyAll == PySl(-1, -1, 0)

PyIndex(seq, x) ==
  IF x.k = "at" THEN (IF x.i < Len(seq) THEN <<seq[x.i + 1]>> ELSE <<>>)
  ELSE LET lo == IF x.lo < 0 THEN 0 ELSE x.lo
           hi == IF x.hi < 0 \/ x.hi > Len(seq) THEN Len(seq) ELSE x.hi
           st == IF x.st = 0 THEN 1 ELSE x.st
           pos == Range(lo, hi - 1, st)                         \* 0-based positions lo, lo+st, ... < hi
       IN  [j \in DOMAIN pos |-> seq[pos[j] + 1]]

\* rows and columns of a rectangular selection, as index sequences
RectOf(sel, rl, cl) ==
  CASE sel.k \in {"int", "label", "slice"} ->
         LET r == Axis(sel, rl) IN IF r.ok THEN [ok |-> TRUE, rows |-> r.idx, cols |-> AllIdx(cl)] ELSE Reject
    [] sel.k = "str" ->
         LET w == ListItem(sel, rl, cl) IN
         IF w[1] = 0 \/ w[2] = 0 THEN Reject ELSE [ok |-> TRUE, rows |-> <<w[1]>>, cols |-> <<w[2]>>]
    [] sel.k = "pair" ->
         LET r == Axis(sel.a, rl)
             c == Axis(sel.b, cl)
         IN  IF r.ok /\ c.ok THEN [ok |-> TRUE, rows |-> r.idx, cols |-> c.idx] ELSE Reject
    [] OTHER -> Reject

Narrow(sel, a, b, rl, cl) ==
  LET R0 == RectOf(sel, rl, cl) IN
  IF ~R0.ok THEN Reject
  ELSE LET rs == PyIndex(R0.rows, a)
           cs == PyIndex(R0.cols, b)
       IN  [ok |-> TRUE, wells |-> Product(rs, cs), shape |-> <<Len(rs), Len(cs)>>]

\* selector or narrowed selector [k |-> "sub", base, a, b]
DenoteAny(sel, rl, cl) == IF sel.k = "sub" THEN Narrow(sel.base, sel.a, sel.b, rl, cl) ELSE Denote(sel, rl, cl)
Sub(base, a, b) == [k |-> "sub", base |-> base, a |-> a, b |-> b]

(***************************************************************************)
(* Default labels: rows 'A'..'Z','AA','AB',... (bijective base 26),        *)
(* columns '1','2',...; a well is named "well <row>,<col>".                *)
(***************************************************************************)
Letters == <<"A","B","C","D","E","F","G","H","I","J","K","L","M",
             "N","O","P","Q","R","S","T","U","V","W","X","Y","Z">>
Digits == <<"0","1","2","3","4","5","6","7","8","9">>

RECURSIVE RowLabel(_)
RowLabel(i) == IF i <= 26 THEN Letters[i]
               ELSE RowLabel((i - 1) \div 26) \o Letters[((i - 1) % 26) + 1]

RECURSIVE NatStr(_)
NatStr(i) == IF i < 10 THEN Digits[i + 1] ELSE NatStr(i \div 10) \o Digits[(i % 10) + 1]

DefaultRows(n) == [i \in 1..n |-> RowLabel(i)]
DefaultCols(n) == [i \in 1..n |-> NatStr(i)]

WellName(rl, cl, w) == "well " \o rl[w[1]] \o "," \o cl[w[2]]

\* row-major linear index of a well on a plate with nc columns
Lin(w, nc) == (w[1] - 1) * nc + w[2]
=============================================================================
