---------------------------- MODULE LifecycleMC ----------------------------
(* exhaustive exploration of the lifecycle machine over a small universe of names *)
EXTENDS Lifecycle
CONSTANTS NameUniverse, StageUniverse
LNext == \/ \E n \in NameUniverse : LUses(n)
         \/ \E ops \in SUBSET NameUniverse, c \in NameUniverse \cup {"-"}, marks \in SUBSET NameUniverse :
               marks \subseteq ops \cup (IF c = "-" THEN {} ELSE {c}) /\ nsteps < 3 /\ LStep(ops, c, marks)
         \/ \E s \in StageUniverse : LStart(s) \/ LEnd(s)
         \/ LBake \/ LBakeFail
LSpec == LInit /\ [][LNext]_lvars
=============================================================================
