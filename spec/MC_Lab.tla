------------------------------- MODULE MC_Lab -------------------------------
(***************************************************************************)
(* Model instances of Lab.tla.  The harness generates one .cfg per run     *)
(* that maps Lab's constants to the definitions below (prefix = instance). *)
(***************************************************************************)
EXTENDS Lab

NoCases == <<>>
NoSet   == {}
Subst4  == {"W", "D", "N", "E"}
C4(w, d, n, e) == [W |-> w, D |-> d, N |-> n, E |-> e]
Cont(cap, c) == [cap |-> cap, w |-> <<MkWell(c)>>]
F4(sn, sr, dn, dr) == [sn |-> sn, sr |-> sr, dn |-> dn, dr |-> dr]
AllUnits == {"L", "g", "mol", "U"}
QuickUnits == {"L", "g"}
HalfFracs == {R(1, 2), One, R(3, 2), R(-1, 2)}
HalfOnly == {R(1, 2)}
TwoOnly == {I(2)}
Litres == {"L"}

(***************************************************************************)
(* CC: three free-standing containers, transfers in all four units         *)
(***************************************************************************)
CC_Names == {"a", "b", "c"}
CC_Shape == [n \in CC_Names |-> <<0, 0>>]
CC_Init == {[a |-> Cont(Inf,   C4(I(6), Zero, I(2), Zero)),
             b |-> Cont(I(20), C4(Zero, I(2), Zero, I(3))),
             c |-> Cont(I(4),  Empty)]}
CC_Regions == [all |-> SL!All]
CC_Forms == <<F4("a", "-", "b", "-"), F4("a", "-", "c", "-"), F4("b", "-", "a", "-"), F4("b", "-", "c", "-"),
              F4("c", "-", "a", "-"), F4("c", "-", "b", "-"), F4("a", "-", "a", "-"), F4("b", "-", "b", "-")>>
CC_Fracs == {R(1, 3), R(1, 2), One, R(3, 2), R(-1, 2)}
CC_CapStep == R(1, 2)

(***************************************************************************)
(* CF: containers with every container-level operation                     *)
(***************************************************************************)
CF_Remove == <<[n |-> "a", r |-> "-", what |-> "W"], [n |-> "a", r |-> "-", what |-> "solid"], [n |-> "a", r |-> "-", what |-> "liquid"],
               [n |-> "b", r |-> "-", what |-> "solid"],
               [n |-> "b", r |-> "-", what |-> "liquid"], [n |-> "b", r |-> "-", what |-> "enzyme"],
               [n |-> "b", r |-> "-", what |-> "N"], [n |-> "c", r |-> "-", what |-> "D"]>>
CF_Fill == <<[n |-> "a", r |-> "-", solvent |-> "W", u |-> "L"], [n |-> "a", r |-> "-", solvent |-> "D", u |-> "g"],
             [n |-> "b", r |-> "-", solvent |-> "W", u |-> "L"], [n |-> "b", r |-> "-", solvent |-> "W", u |-> "mol"],
             [n |-> "b", r |-> "-", solvent |-> "N", u |-> "g"], [n |-> "c", r |-> "-", solvent |-> "W", u |-> "L"],
             [n |-> "c", r |-> "-", solvent |-> "E", u |-> "g"], [n |-> "c", r |-> "-", solvent |-> "D", u |-> "mol"],
             [n |-> "c", r |-> "-", solvent |-> "N", u |-> "L"], [n |-> "a", r |-> "-", solvent |-> "N", u |-> "L"]>>   \* a solid by volume
CF_FillDeltas == {One, R(1, 2), R(-1, 2)}
DC(n, solute, nu, du, solvent) == [n |-> n, solute |-> solute, nu |-> nu, du |-> du, solvent |-> solvent]
CF_Dilute == <<DC("a", "N", "mol", "L", "W"), DC("a", "N", "g", "g", "W"), DC("a", "N", "g", "L", "D"),
               DC("a", "N", "mol", "mol", "W"), DC("a", "W", "L", "L", "D"), DC("b", "D", "mol", "L", "W"),
               DC("b", "D", "L", "g", "W"), DC("b", "D", "g", "mol", "D"), DC("b", "N", "mol", "L", "W"),
               DC("c", "N", "mol", "L", "W"), DC("a", "N", "mol", "g", "W"), DC("b", "D", "L", "L", "W")>>
CF_DiluteYs == {One, I(3)}
NC(n, cap, entries) == [n |-> n, cap |-> cap, entries |-> entries]
CF_New == <<NC("c", I(4), <<<<"W", I(4)>>>>),                       \* exactly full: 50 mL into a 50 mL vessel
            NC("c", I(4), <<<<"W", I(2)>>, <<"D", I(1)>>>>),        \* exactly full in two additions
            NC("c", I(4), <<<<"W", I(3)>>, <<"N", R(1, 2)>>>>),     \* one half too much
            NC("c", I(4), <<<<"W", I(1)>>, <<"E", I(2)>>>>),
            NC("c", Inf, <<<<"N", I(1)>>, <<"E", I(1)>>, <<"D", R(1, 2)>>>>),
            NC("c", I(2), <<>>),
            NC("c", I(4), <<<<"W", I(1)>>, <<"N", R(1, 2)>>, <<"W", R(1, 2)>>>>),   \* a substance listed twice adds up
            NC("c", I(4), <<<<"W", I(2)>>, <<"N", R(-1, 2)>>>>),    \* a negative quantity
            NC("c", Inf, <<<<"D", I(-1)>>>>)>>

(***************************************************************************)
(* PL: a container source, a container destination and a 2x2 plate seeded  *)
(* non-uniformly, plus a 1x2 plate for cross-plate transfers               *)
(***************************************************************************)
PL_Names == {"s", "t", "p", "q"}
PL_Shape == [s |-> <<0, 0>>, t |-> <<0, 0>>, p |-> <<2, 2>>, q |-> <<1, 2>>]
PL_Init == {[s |-> Cont(Inf, C4(I(8), Zero, I(2), I(2))),
             t |-> Cont(I(12), C4(I(1), Zero, Zero, Zero)),
             p |-> [cap |-> I(10), w |-> <<MkWell(C4(I(4), Zero, Zero, Zero)), MkWell(C4(I(2), I(1), Zero, Zero)),
                                            MkWell(C4(Zero, Zero, I(1), I(2))), MkWell(Empty)>>],
             q |-> [cap |-> I(6), w |-> <<MkWell(C4(I(2), Zero, Zero, Zero)), MkWell(C4(Zero, I(1), Zero, I(1)))>>]]}
PL_Regions == [A1 |-> SL!Str("A", "1"), A2 |-> SL!Pair(SL!IntN(1), SL!IntN(2)), B1 |-> SL!Pair(SL!Lbl("B"), SL!Lbl("1")),
               B2 |-> SL!Str("B", "2"), row1 |-> SL!IntN(1), row2 |-> SL!Lbl("B"),
               col1 |-> SL!Pair(SL!All, SL!IntN(1)), col2 |-> SL!Pair(SL!Slc(SL!IntN(1), SL!None, 0), SL!Lbl("2")),
               all |-> SL!All, plate |-> SL!All,
               list2 |-> SL!Lst(<<SL!Str("A", "1"), SL!Pair(SL!IntN(2), SL!IntN(2))>>),
               list2b |-> SL!Lst(<<SL!Pair(SL!Lbl("A"), SL!IntN(2)), SL!Str("B", "1")>>),
               listR |-> SL!Lst(<<SL!Str("B", "1"), SL!Pair(SL!IntN(1), SL!IntN(2))>>),   \* a list that is NOT in row-major order: B1, A2
               listA |-> SL!Lst(<<SL!Str("A", "1"), SL!Pair(SL!IntN(1), SL!IntN(2))>>),   \* A1, A2 (also on the 1x2 plate)
               list1 |-> SL!Lst(<<SL!Str("B", "2")>>),         \* a list of ONE well: shape <<1>>, not the single well B2 (shape <<1, 1>>)
               list1q |-> SL!Lst(<<SL!Pair(SL!IntN(1), SL!IntN(1))>>),
               \* narrowed selections: plate[:][1::2] (= row 2) and plate[:, 1:][0:2:2, 1:] (= well A,2)
               narrowB |-> SL!Sub(SL!All, SL!PySl(1, -1, 2), SL!PyAll),
               narrowA2 |-> SL!Sub(SL!Pair(SL!All, SL!Slc(SL!IntN(1), SL!None, 0)), SL!PySl(0, 2, 2), SL!PySl(1, -1, 0))]
PL_Forms == <<
  \* container -> wells
  F4("s", "-", "p", "A1"), F4("s", "-", "p", "row2"), F4("s", "-", "p", "col2"), F4("s", "-", "p", "all"),
  F4("s", "-", "p", "plate"), F4("s", "-", "p", "list2"), F4("s", "-", "q", "plate"), F4("s", "-", "p", "narrowB"),
  F4("p", "narrowA2", "t", "-"), F4("p", "narrowB", "q", "all"),
  \* wells -> container
  F4("p", "A1", "t", "-"), F4("p", "row1", "t", "-"), F4("p", "col1", "t", "-"), F4("p", "plate", "t", "-"),
  F4("p", "list2", "t", "-"), F4("q", "all", "t", "-"),
  \* same plate: one -> many, many -> one, element-wise; disjoint, overlapping, identical; mismatches
  F4("p", "A1", "p", "row2"), F4("p", "A1", "p", "row1"), F4("p", "A2", "p", "all"), F4("p", "A1", "p", "B2"),
  F4("p", "row1", "p", "B2"), F4("p", "row1", "p", "A1"), F4("p", "row1", "p", "row2"), F4("p", "row1", "p", "row1"),
  F4("p", "col1", "p", "col2"), F4("p", "row1", "p", "col1"), F4("p", "all", "p", "row1"),
  F4("p", "list2", "p", "list2b"), F4("p", "list2", "p", "row1"), F4("p", "col2", "p", "col1"),
  \* a list in another order than the plate's: into it, out of it, element-wise with a list in plate order
  F4("s", "-", "p", "listR"), F4("p", "listR", "t", "-"), F4("p", "listR", "q", "all"),
  \* element-wise between two lists, one of them not in row-major order: B1 -> A1 and A2 -> A2 of the other plate, and back
  F4("p", "listR", "q", "listA"), F4("q", "listA", "p", "listR"),
  \* one-element lists against several wells (no pairing form: rejected) and against one another (element-wise)
  F4("p", "list1", "p", "row1"), F4("p", "row1", "p", "list1"), F4("p", "list1", "q", "all"), F4("p", "list1", "q", "list1q"),
  \* cross plate
  F4("p", "row1", "q", "all"), F4("p", "A2", "q", "plate"), F4("p", "col1", "q", "all"), F4("q", "all", "p", "row2"),
  F4("q", "plate", "p", "B1"), F4("p", "plate", "q", "plate"),
  \* container -> container
  F4("s", "-", "t", "-")>>
PL_Fracs == {R(1, 2), One, R(3, 2), R(-1, 2)}
PL_FracsQuick == {R(1, 2), R(3, 2)}
PL_CapStep == R(1, 2)
RC(n, r, what) == [n |-> n, r |-> r, what |-> what]
PL_Remove == <<RC("p", "plate", "W"), RC("p", "row1", "liquid"), RC("p", "col1", "W"), RC("p", "B1", "enzyme"),
               RC("p", "list2", "W"), RC("p", "all", "solid"), RC("p", "A2", "D"), RC("q", "plate", "liquid"),
               RC("p", "row2", "E"), RC("s", "-", "solid"), RC("p", "narrowB", "enzyme"), RC("p", "narrowA2", "liquid"),
               \* the same regions again with another selector (the replay hands the same slice object to both)
               RC("p", "row1", "W"), RC("p", "col1", "solid"), RC("p", "B1", "W"), RC("p", "listR", "liquid")>>
FC(n, r, solvent, u) == [n |-> n, r |-> r, solvent |-> solvent, u |-> u]
PL_Fill == <<FC("p", "plate", "W", "L"), FC("p", "row1", "W", "L"), FC("p", "col2", "D", "g"), FC("p", "B2", "W", "mol"),
             FC("p", "list2", "W", "L"), FC("p", "row2", "N", "g"), FC("q", "all", "W", "L"), FC("t", "-", "W", "L"), FC("p", "narrowB", "W", "L"), FC("p", "listR", "W", "L")>>
PL_FillDeltas == {One, R(-1, 2)}

(***************************************************************************)
(* SOL: create_solution and create_solution_from by inverse construction   *)
(***************************************************************************)
Subst5 == {"W", "D", "N", "M", "E"}
C5(w, d, n, m, e) == [W |-> w, D |-> d, N |-> n, M |-> m, E |-> e]
SOL_Names == {"v", "v2", "vs", "vr", "z", "k1", "k2", "k3", "o"}
SOL_Shape == [n \in SOL_Names |-> <<0, 0>>]
SOL_Init == {[v  |-> Cont(Inf, C5(I(16), I(1), Zero, Zero, I(1))),    \* solvent container with bystanders: a liquid (D) and an enzyme (E)
              v2 |-> Cont(Inf, C5(I(12), Zero, Zero, I(1), Zero)),    \* solvent container with a dissolved solid (M)
              vs |-> Cont(Inf, C5(I(6), Zero, R(1, 2), Zero, Zero)),  \* diluent that already holds some solute (N)
              vr |-> Cont(Inf, C5(I(4), Zero, I(2), Zero, Zero)),     \* "diluent" richer in solute than the stocks
              z  |-> Cont(Inf, C5(I(2), Zero, Zero, Zero, Zero)),     \* solvent container that is too small
              k1 |-> Cont(Inf, C5(I(10), Zero, I(2), Zero, Zero)),    \* binary stock
              k2 |-> Cont(Inf, C5(I(8), I(1), I(2), Zero, Zero)),     \* ternary stock
              k3 |-> Cont(Inf, C5(I(8), Zero, I(2), Zero, I(1))),     \* stock with an enzyme bystander
              o  |-> Cont(Inf, C5(Zero, Zero, Zero, Zero, Zero))]}
NumUnits(s) == IF IsEnzyme(s) THEN {"U", "g", "L"} ELSE {"mol", "g", "L"}
DenUnits == {"mol", "g", "L"}
QtyUnits(s) == IF IsEnzyme(s) THEN {"U", "g", "L"} ELSE {"mol", "g", "L"}
\* a solvent container never holds one of the solutes (what "quantity of solute" means would be ambiguous)
SolSolvents(sols) == (({"W", "D", "v", "v2", "z"} \ {sols[i] : i \in DOMAIN sols})
                       \ (IF \E i \in DOMAIN sols : sols[i] \in {"D", "E"} THEN {"v"} ELSE {}))
                       \ (IF \E i \in DOMAIN sols : sols[i] = "M" THEN {"v2"} ELSE {})
SCk(sols, solvent, xs, xsolv, given, nu, du, qu, tu, skew) ==
  [n |-> "o", solutes |-> sols, solvent |-> solvent, xs |-> xs, xsolv |-> xsolv, given |-> given,
   nu |-> nu, du |-> du, qu |-> qu, tu |-> tu, skew |-> skew]
SC(sols, solvent, xs, xsolv, given, nu, du, qu, tu) == SCk(sols, solvent, xs, xsolv, given, nu, du, qu, tu, One)
\* one solute: every unit combination that the stated pair of inputs involves
Sol1(quick) ==
  UNION {UNION {
    LET sols == <<s>> IN
    {SC(sols, solvent, <<x>>, xsolv, "cq", <<nu>>, <<du>>, <<qu>>, "L") :
        x \in {One, I(2)}, xsolv \in (IF quick THEN {I(6), I(-1)} ELSE {I(6), I(10), I(-1)}), nu \in NumUnits(s), du \in DenUnits, qu \in QtyUnits(s)}
    \cup {SC(sols, solvent, <<x>>, xsolv, "ct", <<nu>>, <<du>>, <<"g">>, tu) :
        x \in {One, I(2)}, xsolv \in (IF quick THEN {I(6), I(-1)} ELSE {I(6), I(10), I(-1)}), nu \in NumUnits(s), du \in DenUnits, tu \in DenUnits}
    \cup {SC(sols, solvent, <<x>>, xsolv, "qt", <<"g">>, <<"g">>, <<qu>>, tu) :
        x \in {One, I(2)}, xsolv \in {I(6), I(-1)}, qu \in QtyUnits(s), tu \in DenUnits}
    : solvent \in SolSolvents(<<s>>)} : s \in {"N", "D", "E"}}
\* two solutes with per-solute values: per-solute numerator AND denominator units (an earlier solute's denominator
\* unit may be a later solute's numerator unit), and - for the over-determined "cq" - inconsistent quantities
Sol2 ==
  UNION {UNION {
    {SCk(sols, solvent, <<One, I(2)>>, xsolv, given, nus, dus, qus, tu, skew) :
        xsolv \in {I(8), I(-1)}, given \in {"cq", "ct", "qt"},
        nus \in {<<"mol", "mol">>, <<"g", IF IsEnzyme(sols[2]) THEN "U" ELSE "L">>, <<"mol", "g">>},
        dus \in {<<"L", "L">>, <<"g", "g">>, <<"g", "L">>, <<"L", "g">>},
        qus \in {<<"g", IF IsEnzyme(sols[2]) THEN "U" ELSE "mol">>}, tu \in {"L", "g"},
        skew \in {One, R(3, 2), R(1, 2)}}
    : solvent \in SolSolvents(sols) \ {"D", "z"}} : sols \in {<<"N", "D">>, <<"N", "E">>, <<"N", "M">>}}
\* three solutes
Sol3 == {SCk(<<"N", "D", "M">>, solvent, <<One, R(1, 2), One>>, xsolv, given, nus, dus, <<"g", "mol", "g">>, tu, skew) :
           solvent \in {"W"}, xsolv \in {I(8), I(-1)}, given \in {"cq", "ct", "qt"},
           nus \in {<<"mol", "mol", "mol">>, <<"g", "L", "mol">>}, dus \in {<<"L", "L", "L">>, <<"g", "L", "mol">>},
           tu \in {"L", "g"}, skew \in {One, R(3, 2)}}
\* a solvent container that already holds the solute: only quantity + total (the quantity is what is added)
SolStock == {SC(<<"N">>, "vs", <<x>>, I(3), "qt", <<"g">>, <<"g">>, <<qu>>, tu) : x \in {One, R(1, 2)}, qu \in QtyUnits("N"), tu \in DenUnits}
\* a solute stated as zero (quantity '0 g' with a total or with a concentration of zero): must be refused - with ValueError
Sol0 == {SC(<<s>>, solvent, <<Zero>>, I(6), given, <<"g">>, <<"g">>, <<"g">>, "g") :
           s \in {"N", "E"}, solvent \in {"W", "v2"}, given \in {"qt", "cq", "ct"}}
SOL_CasesQuick == Sol0 \cup Sol1(TRUE) \cup {c \in Sol2 : c.tu = "L"} \cup SolStock \cup {c \in Sol3 : c.tu = "L"}
SOL_Cases == Sol0 \cup Sol1(FALSE) \cup Sol2 \cup SolStock \cup Sol3
FR(src, solute, solvent, fx, y, nu, du, tu) ==
  [src |-> src, n |-> "o", solute |-> solute, solvent |-> solvent, fx |-> fx, y |-> y, nu |-> nu, du |-> du, tu |-> tu]
\* the stock's own concentration is a concentration the stock can reach: part of the stock and no solvent (a plain aliquot)
SOL_FromAliquot == {FR(src, "N", "W", fx, Zero, nu, du, tu) :
                      src \in {"k1", "k2", "k3"}, fx \in {R(1, 4), R(1, 2)}, nu \in {"mol", "g", "L"}, du \in DenUnits, tu \in DenUnits}
SOL_From(quick) ==
  {FR(src, "N", "W", fx, y, nu, du, tu) :
      src \in {"k1", "k2", "k3"}, fx \in (IF quick THEN {R(1, 2), R(3, 2)} ELSE {R(1, 4), R(1, 2), One, R(3, 2)}),
      y \in (IF quick THEN {I(2), I(-1)} ELSE {I(2), I(4), Zero, I(-1)}),
      nu \in {"mol", "g", "L"}, du \in DenUnits, tu \in DenUnits}
  \cup {FR(src, "N", "v", R(1, 2), y, nu, du, tu) :
      src \in {"k1", "k2"}, y \in {R(1, 4), R(3, 2)}, nu \in {"mol", "g"}, du \in {"L", "g"}, tu \in {"L", "g"}}
  \cup {FR(src, "N", "vs", fx, y, nu, du, tu) :
      src \in {"k1", "k2"}, fx \in {R(1, 2), R(1, 4)}, y \in {R(1, 4), R(1, 2), R(3, 2)}, nu \in {"mol", "g"}, du \in {"L", "g"}, tu \in {"L", "g"}}
  \cup {FR(src, "N", "vr", R(1, 2), y, nu, du, tu) :        \* the target lies between the stock's and the diluent's concentration
      src \in {"k1", "k2"}, y \in {R(1, 4), R(1, 2)}, nu \in {"mol", "g"}, du \in {"L", "g"}, tu \in {"L", "g", "mol"}}
  \* a target below the diluent's own concentration (and below the stock's): unreachable
  \cup {FR("k1", "N", "vs", R(-1, 8), R(3, 4), nu, du, tu) : nu \in {"mol", "g"}, du \in {"L", "g"}, tu \in {"L", "g"}}
  \cup {FR("k2", "D", "W", R(1, 2), I(2), nu, du, "L") : nu \in {"mol", "L"}, du \in {"L", "mol"}}
  \cup {FR("v", "N", "W", R(1, 2), I(2), "mol", "L", "L")}     \* the source does not contain the solute
  \* a high dilution (1:80): a small fraction of the stock in much solvent - the two volumes fall into different prefix ranges
  \cup {FR("k1", "N", "W", R(1, 320), I(4), nu, "L", "L") : nu \in {"mol", "g"}}
SOL_FromQuick == SOL_From(TRUE) \cup SOL_FromAliquot
\* SOL2: a container that has been a solvent, then changes its composition, then is a solvent again (what create_solution
\* derives from a solvent container - effective molar mass, density - belongs to that composition only): depth 3
SOL2_Forms == <<F4("z", "-", "v", "-")>>
SOL2_Cases == {SC(<<"N">>, "v", <<One>>, I(6), given, <<nu>>, <<du>>, <<"g">>, "L") :
                 given \in {"cq", "ct", "qt"}, nu \in {"mol", "g"}, du \in {"L", "g"}}
\* SOL3: a stock that is no longer what it was made as - it received part of another container (bystanders D and E, or the
\* ternary stock), was topped up, or has already been drawn from (the residual of one create_solution_from is the stock of
\* the next) - and is then diluted as requested: depth 2
SOL3_Forms == <<F4("v", "-", "k1", "-"), F4("k2", "-", "k1", "-")>>
SOL3_Fill == <<FC("k1", "-", "W", "L")>>
SOL3_From == {FR("k1", "N", "W", fx, y, nu, du, tu) :
                fx \in {R(1, 2), R(1, 4)}, y \in {I(2), I(-1)}, nu \in {"mol", "g"}, du \in {"L", "g"}, tu \in {"L", "g", "mol"}}
             \cup {FR("k1", "N", "vs", R(1, 2), R(1, 2), nu, du, tu) : nu \in {"mol", "g"}, du \in {"L", "g"}, tu \in {"L", "g"}}
SOL_FromFull == SOL_From(FALSE) \cup SOL_FromAliquot

(***************************************************************************)
(* DUP: two DIFFERENT plates that carry the same display name (replicates, *)
(* or an older and a newer version of one plate).  The harness strips the  *)
(* suffix "_dup" when it names the object: vessel p_dup is a second Plate  *)
(* object named 'p'.  Values are told apart by identity, never by name.    *)
(***************************************************************************)
DUP_Names == {"s", "p", "p_dup"}
DUP_Shape == [s |-> <<0, 0>>, p |-> <<2, 2>>, p_dup |-> <<2, 2>>]
DUP_Init == {[s |-> Cont(Inf, C4(I(8), Zero, I(2), I(2))),
              p |-> [cap |-> I(10), w |-> <<MkWell(C4(I(4), Zero, Zero, Zero)), MkWell(C4(I(2), I(1), Zero, Zero)),
                                             MkWell(C4(Zero, Zero, I(1), I(2))), MkWell(Empty)>>],
              p_dup |-> [cap |-> I(10), w |-> <<MkWell(C4(I(1), Zero, I(1), Zero)), MkWell(Empty),
                                                 MkWell(C4(I(3), Zero, Zero, Zero)), MkWell(C4(Zero, I(2), Zero, I(1)))>>]]}
DUP_Forms == <<F4("p", "row1", "p_dup", "row2"), F4("p_dup", "A1", "p", "all"), F4("p", "all", "p_dup", "all"),
               F4("p_dup", "col1", "p", "col2"), F4("p", "plate", "p_dup", "plate"), F4("p_dup", "row2", "p", "B2"),
               F4("s", "-", "p_dup", "row1"), F4("p_dup", "col1", "s", "-"), F4("p", "A1", "p", "row2")>>
DUP_Remove == <<RC("p_dup", "row1", "W"), RC("p", "plate", "liquid")>>
DUP_Fill == <<FC("p_dup", "col2", "W", "L"), FC("p", "row1", "W", "L")>>


(***************************************************************************)
(* TWIN: two different plates that are EQUAL in every respect - name,       *)
(* shape, capacity, contents of every well (two replicates made by the     *)
(* same helper).  They are still two plates: what leaves one arrives in    *)
(* the other.  After the first transfer they differ.                       *)
(***************************************************************************)
TWIN_Init == {[s |-> Cont(Inf, C4(I(8), Zero, I(2), I(2))),
               p |-> [cap |-> I(10), w |-> <<MkWell(C4(I(4), Zero, Zero, Zero)), MkWell(C4(I(2), I(1), Zero, Zero)),
                                              MkWell(C4(Zero, Zero, I(1), I(2))), MkWell(Empty)>>],
               p_dup |-> [cap |-> I(10), w |-> <<MkWell(C4(I(4), Zero, Zero, Zero)), MkWell(C4(I(2), I(1), Zero, Zero)),
                                                  MkWell(C4(Zero, Zero, I(1), I(2))), MkWell(Empty)>>]]}
TWIN_Forms == <<F4("p", "A1", "p_dup", "A1"), F4("p", "all", "p_dup", "all"), F4("p_dup", "row1", "p", "row1"),
                F4("p", "row1", "p_dup", "row2"), F4("p_dup", "A2", "p", "plate"), F4("p", "col1", "p_dup", "B2"),
                F4("s", "-", "p_dup", "row1")>>

(***************************************************************************)
(* LOT: two lots of one enzyme (same name, different specific activity).   *)
(* Substance equality ignores the specific activity, so anything cached    *)
(* per Substance is shared between the lots; mass-based requests must not. *)
(***************************************************************************)
SubstLot == {"W", "E", "F"}
C3(w, e, f) == [W |-> w, E |-> e, F |-> f]
LOT_Names == {"e1", "f1", "d", "d2", "o"}        \* (the lots are never mixed: in a container they would share one key)
LOT_Shape == [n \in LOT_Names |-> <<0, 0>>]
LOT_Init == {[e1 |-> Cont(Inf, C3(I(4), I(2), Zero)), f1 |-> Cont(Inf, C3(I(4), Zero, I(2))),
              d |-> Cont(Inf, C3(Zero, Zero, Zero)), d2 |-> Cont(Inf, C3(Zero, Zero, Zero)),
              o |-> Cont(Inf, C3(Zero, Zero, Zero))]}
LOT_Forms == <<F4("e1", "-", "d", "-"), F4("f1", "-", "d2", "-")>>
LOT_Fracs == {R(1, 2), One}
LOT_Sol == {SC(<<s>>, "W", <<One>>, I(6), given, <<nu>>, <<du>>, <<qu>>, tu) :
              s \in {"E", "F"}, given \in {"cq", "ct", "qt"}, nu \in {"U", "g"}, du \in {"g", "L"}, qu \in {"g", "U"}, tu \in {"g", "L"}}
LOT_Fill == <<FC("e1", "-", "E", "g"), FC("f1", "-", "F", "g")>>
LOT_FillDeltas == {One}

=============================================================================
