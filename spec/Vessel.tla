------------------------------- MODULE Vessel -------------------------------
(***************************************************************************)
(* Pure operators on wells: the specified effect of every container-level  *)
(* operation of PyPlate together with its feasibility predicate and        *)
(* feasibility CLASS.  A well is [c |-> contents, vol |-> cached volume];  *)
(* a capacity is a rational or Inf.                           *)
(*                                                                         *)
(* Every operator returns a record with a field cls:                       *)
(*   "interior"   feasible, every margin strictly positive                 *)
(*   "boundary"   feasible with an equality (takes exactly everything,     *)
(*                fills exactly to capacity, target equals current value)  *)
(*   "degenerate" a request with no defined ratio (0 out of nothing)       *)
(*   anything else: the reason the request is infeasible; such a record    *)
(*   carries no result wells - the operation must be refused.              *)
(***************************************************************************)
EXTENDS Chem

Inf == <<1, 0>>      \* the capacity of an unbounded container ("inf L"); not a rational

Feasible(cls) == cls \in {"interior", "boundary", "degenerate"}

MkWell(c) == [c |-> c, vol |-> Volume(c)]
EmptyWell == [c |-> Empty, vol |-> Zero]

Fits(vol, cap) == cap = Inf \/ Le(vol, cap)
Full(vol, cap) == cap # Inf /\ vol = cap

(***************************************************************************)
(* transfer of quantity q >= 0 (unit u) from well sw into well dw          *)
(* The aliquot has the composition of the source: every substance is       *)
(* reduced by the same fraction q / Measure(source, u).  Both volumes are  *)
(* recomputed from the contents, as Container._transfer does.              *)
(***************************************************************************)
Aliquot(c, q, u) == Scale(c, Div(q, Measure(c, u)))          \* Measure(c,u) # 0

XferPair(sw, dw, dcap, q, u) ==
  LET m == Measure(sw.c, u) IN
  IF IsZero(m) /\ IsZero(q) THEN [cls |-> "degenerate", sw |-> sw, dw |-> dw, moved |-> Empty]
  ELSE IF Lt(m, q) THEN [cls |-> "overdraw"]
  ELSE LET moved == Aliquot(sw.c, q, u)
           sc == Minus(sw.c, moved)
           dc == Plus(dw.c, moved)
           dv == Volume(dc)
       IN  IF ~Fits(dv, dcap) THEN [cls |-> "capacity"]
           ELSE [cls   |-> IF q = m \/ Full(dv, dcap) THEN "boundary" ELSE "interior",
                 sw    |-> [c |-> sc, vol |-> Volume(sc)],
                 dw    |-> [c |-> dc, vol |-> dv],
                 moved |-> moved]

(***************************************************************************)
(* adding amount y of substance s (Container._self_add: the cached volume  *)
(* is incremented, not recomputed)                                         *)
(***************************************************************************)
AddTo(w, s, y) == [c |-> Plus(w.c, Only(s, y)), vol |-> Add(w.vol, Mul(y, VolPer[s]))]

(***************************************************************************)
(* fill_to: add solvent until the total measure in unit u equals target T  *)
(***************************************************************************)
FillOp(w, cap, solvent, T, u) ==
  LET cur == Measure(w.c, u)
      per == PerUnit(solvent, u)
  IN  IF ~IsPos(T) THEN [cls |-> "nonpositive"]
      ELSE IF Lt(T, cur) THEN [cls |-> "fill_below"]
      ELSE IF T = cur THEN [cls |-> "boundary", w |-> w, y |-> Zero]
      ELSE IF IsZero(per) THEN [cls |-> "unreachable"]
      ELSE LET y  == Div(Sub(T, cur), per)
               nw == AddTo(w, solvent, y)
           IN  IF ~Fits(nw.vol, cap) THEN [cls |-> "capacity"]
               ELSE [cls |-> IF Full(nw.vol, cap) THEN "boundary" ELSE "interior", w |-> nw, y |-> y]

(***************************************************************************)
(* dilute: add solvent until Conc(solute, nu/du) equals target t           *)
(***************************************************************************)
DiluteOp(w, cap, solute, nu, du, solvent, t) ==
  LET num == Single1(solute, w.c[solute], nu)
      den == Measure(w.c, du)
      per == PerUnit(solvent, du)
  IN  IF IsZero(w.c[solute]) THEN [cls |-> "no_solute"]
      ELSE IF ~IsPos(t) \/ IsZero(num) \/ IsZero(den) THEN [cls |-> "unreachable"]
      ELSE LET cur == Div(num, den) IN
           IF Lt(cur, t) THEN [cls |-> "conc_above_current"]
           ELSE IF t = cur THEN [cls |-> "boundary", w |-> w, y |-> Zero]
           ELSE IF IsZero(per) \/ solvent = solute THEN [cls |-> "unreachable"]
           ELSE LET y  == Div(Sub(Div(num, t), den), per)
                    nw == AddTo(w, solvent, y)
                IN  IF ~Fits(nw.vol, cap) THEN [cls |-> "capacity"]
                    ELSE [cls |-> IF Full(nw.vol, cap) THEN "boundary" ELSE "interior", w |-> nw, y |-> y]

(***************************************************************************)
(* remove: delete the selected substances, recompute the volume            *)
(***************************************************************************)
RemoveC(c, what) == [s \in Subst |-> IF Selected(what, s) THEN Zero ELSE c[s]]
RemovedC(c, what) == [s \in Subst |-> IF Selected(what, s) THEN c[s] ELSE Zero]
RemoveOp(w, what) == MkWell(RemoveC(w.c, what))

(***************************************************************************)
(* constructing a container from (substance, amount) entries added one     *)
(* after the other; refused when a prefix exceeds the capacity             *)
(***************************************************************************)
RECURSIVE BuildFrom(_, _, _)
BuildFrom(w, cap, entries) ==
  IF entries = <<>> THEN [cls |-> "interior", w |-> w]
  ELSE LET e  == Head(entries)
           nw == AddTo(w, e[1], e[2])
       IN  IF IsNeg(e[2]) THEN [cls |-> "negative"]
           ELSE IF ~Fits(nw.vol, cap) THEN [cls |-> "capacity"]
           ELSE LET r == BuildFrom(nw, cap, Tail(entries)) IN
                IF Feasible(r.cls) /\ Full(nw.vol, cap) THEN [r EXCEPT !.cls = "boundary"] ELSE r
=============================================================================
