----------------------------- MODULE MC_LabObs -----------------------------
(* instance for trace validation of recorded histories: three containers (one receives every newly made solution), a 3x4 and a 2x3 plate *)
EXTENDS LabObs
NoCases == <<>>
NoSet   == {}
Subst4  == {"W", "D", "N", "E"}
CC_Regions == [all |-> SL!All]
CC_CapStep == One
OBS_Names == {"s", "t", "o", "p", "q"}
OBS_Shape == [s |-> <<0, 0>>, t |-> <<0, 0>>, o |-> <<0, 0>>, p |-> <<3, 4>>, q |-> <<2, 3>>]
=============================================================================
