--------------------------- MODULE RecipeRefines ---------------------------
(***************************************************************************)
(* Recipe.tla implements Lifecycle.tla: under the refinement mapping below *)
(* every step of the recipe machine is a step of the lifecycle machine     *)
(* (with the witnesses read from the event just taken) or leaves the       *)
(* lifecycle variables unchanged.  Checked by TLC on the lifecycle         *)
(* instance; it is what entitles LifecycleTrace.tla - the specification    *)
(* real executions are validated against - to speak for Recipe.tla.        *)
(***************************************************************************)
EXTENDS MC_Recipe

LC == INSTANCE Lifecycle WITH declared <- Declared, used <- rs.used, stageNames <- StageNames, cur <- rs.cur,
                              locked <- rs.locked, nsteps <- Len(rs.prog), dead <- rs.dead

Mapped == <<Declared, rs.used, StageNames, rs.cur, rs.locked, Len(rs.prog), rs.dead>>

RefStep ==
  LET c == last'.call IN
  IF c.call = "uses_list"
  THEN IF last'.res = "RuntimeError" THEN UNCHANGED Mapped
       ELSE LC!LUsesSome({d \in Declared' : d \notin Declared}) \/ UNCHANGED Mapped
  ELSE IF last'.res # "ok"
  THEN (UNCHANGED Mapped) \/ (c.call = "bake" /\ LC!LBakeFail)
  ELSE CASE c.call = "uses" -> LC!LUses(ObjName[c.o])
         [] StepAdding(c) -> LC!LStep(Operands(c), IF Creates(c) THEN c.n ELSE "-", StepUses(c))
         [] c.call = "start_stage" -> LC!LStart(c.name)
         [] c.call = "end_stage" -> LC!LEnd(c.name)
         [] c.call = "bake" -> LC!LBake

\* and the outcome the recipe machine specifies is the outcome the lifecycle machine dictates
OutcomeAgrees ==
  LET c == last'.call
      want == CASE c.call = "uses" -> LC!UsesOutcome(ObjName[c.o])
                [] c.call = "uses_list" -> IF rs.locked THEN "RuntimeError"
                                           ELSE IF \E i \in DOMAIN c.os : \/ ObjName[c.os[i]] \in Declared
                                                                         \/ \E j \in DOMAIN c.os : j < i /\ ObjName[c.os[j]] = ObjName[c.os[i]]
                                                THEN "refused" ELSE "ok"
                [] StepAdding(c) -> LC!StepOutcome(Operands(c), IF Creates(c) THEN c.n ELSE "-")
                [] c.call = "start_stage" -> LC!StartOutcome(c.name)
                [] c.call = "end_stage" -> LC!EndOutcome(c.name)
                [] c.call = "bake" -> LC!BakeOutcome
  IN  IF rs.dead /\ c.call \in {"start_stage", "end_stage"} THEN last'.res = "notRuntimeError"   \* not locked; otherwise unspecified
      ELSE IF c.call = "bake" /\ want = "ok" THEN last'.res \in {"ok", "ValueError"}      \* a doomed program fails at bake
      ELSE IF c.call = "bake" /\ want = "refused" THEN last'.res \in {"refused", "ValueError"}
      ELSE last'.res = want

Refines == [][RefStep /\ OutcomeAgrees]_rvars
=============================================================================
