--------------------------- MODULE RecipeRefines ---------------------------
(***************************************************************************)
(* Recipe.tla implements Lifecycle.tla: under the refinement mapping below *)
(* every step of the recipe machine is a step of the lifecycle machine     *)
(* (with the witnesses read from the event just taken) or leaves the       *)
(* lifecycle variables unchanged.  Checked by TLC on the lifecycle         *)
(* instance; it is what entitles LifecycleTrace.tla - the specification    *)
(* real executions are validated against - to speak for Recipe.tla.        *)
(***************************************************************************)
EXTENDS MC_Recipe

LC == INSTANCE Lifecycle WITH declared <- Declared, used <- rs.used, stageNames <- StageNames, cur <- rs.cur,
                              locked <- rs.locked, nsteps <- Len(rs.prog), dead <- rs.dead

Mapped == <<Declared, rs.used, StageNames, rs.cur, rs.locked, Len(rs.prog), rs.dead>>

RefStep ==
  LET c == last'.call IN
  IF last'.res # "ok"
  THEN (UNCHANGED Mapped) \/ (c.call = "bake" /\ LC!LBakeFail)
  ELSE CASE c.call = "uses" -> LC!LUses(ObjName[c.o])
         [] StepAdding(c) -> LC!LStep(Operands(c), IF Creates(c) THEN c.n ELSE "-", StepUses(c))
         [] c.call = "start_stage" -> LC!LStart(c.name)
         [] c.call = "end_stage" -> LC!LEnd(c.name)
         [] c.call = "bake" -> LC!LBake

\* and the outcome the recipe machine specifies is the outcome the lifecycle machine dictates
OutcomeAgrees ==
  LET c == last'.call
      want == CASE c.call = "uses" -> LC!UsesOutcome(ObjName[c.o])
                [] StepAdding(c) -> LC!StepOutcome(Operands(c), IF Creates(c) THEN c.n ELSE "-")
                [] c.call = "start_stage" -> LC!StartOutcome(c.name)
                [] c.call = "end_stage" -> LC!EndOutcome(c.name)
                [] c.call = "bake" -> LC!BakeOutcome
  IN  IF c.call = "bake" /\ want = "ok" THEN last'.res \in {"ok", "ValueError"}      \* a doomed program fails at bake
      ELSE IF c.call = "bake" /\ want = "refused" THEN last'.res \in {"refused", "ValueError"}
      ELSE last'.res = want

Refines == [][RefStep /\ OutcomeAgrees]_rvars
=============================================================================
