------------------------------- MODULE LabInt -------------------------------
(***************************************************************************)
(* Unbounded complement to the bounded instances of Lab.tla: an integer    *)
(* abstraction of the transfer / remove / add operations (amounts are      *)
(* natural numbers of an arbitrarily fine quantum, two substances with     *)
(* volumes 1 and 2 per unit, three vessels) whose safety properties -      *)
(* amounts never negative, capacity never exceeded, cached volume equal to *)
(* the volume of the contents, every substance conserved by transfers -    *)
(* are discharged for ARBITRARY amounts by Apalache as an inductive        *)
(* invariant (Init => IndInv at length 0, IndInv /\ Next => IndInv' at     *)
(* length 1).  The moved vector of a transfer is any vector that is        *)
(* componentwise within the source (a uniform aliquot is one such vector), *)
(* so the result covers every aliquot rule; the exact aliquot arithmetic   *)
(* is what the bounded rational instances decide.                          *)
(***************************************************************************)
EXTENDS Integers

VARIABLES
  \* @type: Int;
  TotalA,   \* what the vessels held initially (never changes)
  \* @type: Int;
  TotalB,
  \* @type: Int -> Int;
  a,        \* amount of substance A (volume 1 per unit) in vessel i
  \* @type: Int -> Int;
  b,        \* amount of substance B (volume 2 per unit)
  \* @type: Int -> Int;
  vol,      \* cached volume
  \* @type: Int -> Int;
  cap,      \* capacity
  \* @type: Int;
  added     \* total of A added from outside (by add steps), minus removed

V == 1..3

Volume(i) == a[i] + 2 * b[i]

Init ==
  /\ a \in [V -> 0..5] /\ b \in [V -> 0..5]
  /\ vol = [i \in V |-> a[i] + 2 * b[i]]
  /\ cap \in [V -> 20..40]
  /\ added = 0
  /\ TotalA = a[1] + a[2] + a[3] /\ TotalB = b[1] + b[2] + b[3]

\* move (ma, mb) from vessel i to vessel j: refused unless within the source and the destination's capacity
Transfer ==
  \E i \in V, j \in V, ma \in Int, mb \in Int :
    /\ i # j
    /\ 0 <= ma /\ ma <= a[i] /\ 0 <= mb /\ mb <= b[i]
    /\ vol[j] + ma + 2 * mb <= cap[j]
    /\ a' = [a EXCEPT ![i] = @ - ma, ![j] = @ + ma]
    /\ b' = [b EXCEPT ![i] = @ - mb, ![j] = @ + mb]
    /\ vol' = [vol EXCEPT ![i] = @ - ma - 2 * mb, ![j] = @ + ma + 2 * mb]
    /\ UNCHANGED <<cap, added, TotalA, TotalB>>

\* fill_to / dilute / constructor: add y >= 0 of A within the capacity
AddA ==
  \E i \in V, y \in Int :
    /\ 0 <= y /\ vol[i] + y <= cap[i]
    /\ a' = [a EXCEPT ![i] = @ + y]
    /\ vol' = [vol EXCEPT ![i] = @ + y]
    /\ added' = added + y
    /\ UNCHANGED <<b, cap, TotalA, TotalB>>

\* remove all A from a vessel
RemoveA ==
  \E i \in V :
    /\ a' = [a EXCEPT ![i] = 0]
    /\ vol' = [vol EXCEPT ![i] = @ - a[i]]
    /\ added' = added - a[i]
    /\ UNCHANGED <<b, cap, TotalA, TotalB>>

Next == Transfer \/ AddA \/ RemoveA

\* the inductive invariant: typing, C03 (non-negative, within capacity), C10 (cached volume), C01 (conservation)
IndInv ==
  /\ a \in [V -> Int] /\ b \in [V -> Int] /\ vol \in [V -> Int] /\ cap \in [V -> Int] /\ added \in Int
  /\ TotalA \in Int /\ TotalB \in Int
  /\ \A i \in V : a[i] >= 0 /\ b[i] >= 0
  /\ \A i \in V : vol[i] = a[i] + 2 * b[i]
  /\ \A i \in V : vol[i] <= cap[i]
  /\ a[1] + a[2] + a[3] = TotalA + added
  /\ b[1] + b[2] + b[3] = TotalB

\* for the induction step: any state satisfying IndInv
IndInit == IndInv
=============================================================================
