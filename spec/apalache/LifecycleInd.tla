---------------------------- MODULE LifecycleInd ----------------------------
(***************************************************************************)
(* Unbounded complement to the bounded exploration of the recipe lifecycle *)
(* (property C16): the machine of Lifecycle.tla, typed for Apalache, over  *)
(* an arbitrary finite universe of object names and stage names and for    *)
(* call sequences of ANY length.  The discipline                           *)
(*   - at most one stage is open and an open stage is not a closed one,    *)
(*   - only declared names are ever marked as used,                        *)
(*   - a locked (successfully baked) recipe has every declared object used *)
(*     and no open stage, and nothing changes any more,                    *)
(*   - a recipe whose bake failed part-way is NOT locked                   *)
(* is discharged as an inductive invariant: Init => IndInv (length 0) and  *)
(* IndInv /\ Next => IndInv' (length 1), plus the action property          *)
(* LockedFreezes as an inductive step.  The actions are those of           *)
(* Lifecycle.tla (LUses, LUsesSome, LStep, LStart, LEnd, LBake, LBakeFail) *)
(* with their arguments quantified over the universe.                      *)
(***************************************************************************)
EXTENDS Integers, FiniteSets

CONSTANTS
  \* @type: Set(Str);
  Names,        \* every object name a recipe may ever see
  \* @type: Set(Str);
  Stages        \* every stage name ("all" is not one of them)

VARIABLES
  \* @type: Set(Str);
  declared,
  \* @type: Set(Str);
  used,
  \* @type: Set(Str);
  stageNames,
  \* @type: Str;
  cur,
  \* @type: Bool;
  locked,
  \* @type: Int;
  nsteps,
  \* @type: Bool;
  dead

ConstInit == Names = {"a", "b", "c", "d"} /\ Stages = {"s1", "s2", "s3"}

Init == /\ declared = {} /\ used = {} /\ stageNames = {} /\ cur = "all"
        /\ locked = FALSE /\ nsteps = 0 /\ dead = FALSE

\* ---- the actions of Lifecycle.tla ---------------------------------------
LUsesSome(S) == /\ ~locked /\ S \cap declared = {}
                /\ declared' = declared \cup S
                /\ UNCHANGED <<used, stageNames, cur, locked, nsteps, dead>>

\* a step over declared operands `ops` that may create the name `creates` ("-" = none) and marks `marks` as used;
\* what a step marks are its operands and what it creates (StepUses of Recipe.tla)
LStep(ops, creates, marks) ==
  /\ ~locked /\ ops \subseteq declared
  /\ (creates # "-" => creates \notin declared)
  /\ marks \subseteq ops \cup (IF creates = "-" THEN {} ELSE {creates})
  /\ declared' = declared \cup (IF creates = "-" THEN {} ELSE {creates})
  /\ used' = used \cup marks
  /\ nsteps' = nsteps + 1
  /\ UNCHANGED <<stageNames, cur, locked, dead>>

LStart(s) == /\ ~dead /\ ~locked /\ s \notin stageNames /\ cur = "all" /\ cur' = s
             /\ UNCHANGED <<declared, used, stageNames, locked, nsteps, dead>>

LEnd(s) == /\ ~dead /\ ~locked /\ cur = s /\ stageNames' = stageNames \cup {s} /\ cur' = "all"
           /\ UNCHANGED <<declared, used, locked, nsteps, dead>>

LBake == /\ ~dead /\ ~locked /\ declared = used
         /\ locked' = TRUE
         /\ stageNames' = stageNames \cup (IF cur = "all" THEN {} ELSE {cur})
         /\ cur' = "all"
         /\ UNCHANGED <<declared, used, nsteps, dead>>

LBakeFail == /\ ~dead /\ ~locked /\ dead' = TRUE
             /\ UNCHANGED <<declared, used, stageNames, cur, locked, nsteps>>

Next ==
  \/ \E S \in SUBSET Names : LUsesSome(S)
  \/ \E ops \in SUBSET Names : \E marks \in SUBSET Names : \E c \in Names \cup {"-"} : LStep(ops, c, marks)
  \/ \E s \in Stages : LStart(s) \/ LEnd(s)
  \/ LBake \/ LBakeFail

\* ---- the discipline, as an inductive invariant ---------------------------
TypeOK == /\ declared \subseteq Names /\ used \subseteq Names /\ stageNames \subseteq Stages
          /\ cur \in Stages \cup {"all"} /\ locked \in BOOLEAN /\ dead \in BOOLEAN /\ nsteps \in Int

IndInv == /\ TypeOK
          /\ nsteps >= 0
          /\ used \subseteq declared                         \* only declared objects are ever used
          /\ (cur = "all" \/ cur \notin stageNames)          \* one open stage at most, and it is not a closed one
          /\ (locked => (declared = used /\ cur = "all"))    \* a baked recipe: everything declared was used, no open stage
          /\ (dead => ~locked)                               \* a bake that failed part-way does not lock the recipe

\* an arbitrary state satisfying the invariant (the induction hypothesis)
IndInit == /\ declared \in SUBSET Names /\ used \in SUBSET Names /\ stageNames \in SUBSET Stages
           /\ cur \in Stages \cup {"all"} /\ locked \in BOOLEAN /\ dead \in BOOLEAN /\ nsteps \in 0..1000000
           /\ IndInv

\* an action invariant (Apalache checks it on every transition out of an arbitrary IndInit state):
\* once locked, nothing changes any more - no call is accepted by a baked recipe
LockedFreezes == locked => /\ declared' = declared /\ used' = used /\ stageNames' = stageNames /\ cur' = cur
                           /\ locked' = locked /\ nsteps' = nsteps /\ dead' = dead
=============================================================================
