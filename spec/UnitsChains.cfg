\* conversion chains of length <= 3 (no emission; laws as invariants of paths)
SPECIFICATION SpecQuiet
CONSTANTS
  Subst <- U_Subst
  Mantissas <- U_MantissasChain
  Mode = "convert"
  MaxChain = 3
VIEW AllView
INVARIANT Composition
INVARIANT RoundTrip
INVARIANT NoMolesNoActivity
CHECK_DEADLOCK FALSE
