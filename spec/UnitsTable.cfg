\* complete conversion table: every substance x unit x prefix x mantissa, one conversion to every unit x prefix
SPECIFICATION Spec
CONSTANTS
  Subst <- U_Subst
  Mantissas <- U_Mantissas
  Mode = "convert"
  MaxChain = 1
VIEW AllView
INVARIANT Composition
INVARIANT RoundTrip
INVARIANT NoMolesNoActivity
CHECK_DEADLOCK FALSE
