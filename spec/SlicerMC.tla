------------------------------ MODULE SlicerMC ------------------------------
(***************************************************************************)
(* Complete enumeration of the selector grammar of Slicer.tla on one plate *)
(* shape (constants), with the internal laws of the denotation as          *)
(* invariants; every selector is printed with its denotation so that the   *)
(* harness evaluates plate[selector] on the implementation.                *)
(***************************************************************************)
EXTENDS Slicer, TLC, Json

CONSTANTS RowLabels, ColLabels,    \* label sequences of the plate
          Foreign,                 \* a label that is on no axis
          MaxStep,                 \* steps 0 (absent), 1..MaxStep
          PartK, PartN             \* this process enumerates the selectors of class PartK (mod PartN)

NR == Len(RowLabels)
NC == Len(ColLabels)

IntCands(n) == IF n <= 4 THEN 0..(n + 1) ELSE {0, 1, 2, 26, 27, n - 1, n, n + 1}
LblCands(labels) == {labels[i] : i \in {j \in DOMAIN labels : j \in IntCands(Len(labels))}} \cup {Foreign}
Singles(labels) == {IntN(i) : i \in IntCands(Len(labels))} \cup {Lbl(l) : l \in LblCands(labels)}
Ends(labels) == {None} \cup Singles(labels)
Slices(labels) == {Slc(lo, hi, st) : lo \in Ends(labels), hi \in Ends(labels), st \in 0..MaxStep}
AxisSels(labels) == Singles(labels) \cup Slices(labels)

ListAlphabet == {Str(RowLabels[1], ColLabels[1]), Pair(IntN(NR), IntN(NC)), Pair(Lbl(RowLabels[1]), IntN(NC)),
                 Pair(IntN(0), IntN(1)), Str(Foreign, ColLabels[1])}
Lists == UNION {[1..k -> ListAlphabet] : k \in 1..3}

\* selectors, tagged with a class index so that several TLC processes can share one shape
RowPart(a) == CASE a.k = "int" -> a.i [] a.k = "label" -> IndexOf(a.l, RowLabels) + 1
                [] OTHER -> (IF a.lo.k = "int" THEN a.lo.i ELSE IF a.lo.k = "label" THEN IndexOf(a.lo.l, RowLabels) ELSE 5) + a.st
Mine(a) == RowPart(a) % PartN = PartK

Selectors ==
  {a \in AxisSels(RowLabels) : Mine(a)}
  \cup {Pair(a, b) : a \in {x \in AxisSels(RowLabels) : Mine(x)}, b \in AxisSels(ColLabels)}
  \cup (IF PartK = 0 THEN {Str(r, c) : r \in LblCands(RowLabels), c \in LblCands(ColLabels)} \cup {Lst(l) : l \in Lists}
        ELSE {})

\* narrowed selections plate[base][a, b]: a few base selections x every Python-style index pair
PyCands(n) == {PyAt(i) : i \in 0..(n - 1)} \cup {PySl(lo, hi, st) : lo \in {-1, 0, 1, 2}, hi \in {-1, 1, 2, n}, st \in {0, 1, 2}}
Bases == {All, Slc(IntN(2), None, 0), Pair(Slc(None, None, 2), Slc(IntN(1), IntN(NC), 0)),
          Pair(Slc(IntN(1), None, 0), Slc(None, None, 2)), IntN(1), Pair(Slc(None, IntN(NR), 0), Slc(IntN(2), None, 0))}
Narrowed == IF PartK # 0 THEN {}
            ELSE {[k |-> "sub", base |-> b0, a |-> a, b |-> b] : b0 \in Bases, a \in PyCands(NR), b \in PyCands(NC)}

VARIABLE sel
Init == sel \in Selectors \cup Narrowed
Next == UNCHANGED sel
Spec == Init /\ [][Next]_sel

D(s) == IF s.k = "sub" THEN Narrow(s.base, s.a, s.b, RowLabels, ColLabels) ELSE Denote(s, RowLabels, ColLabels)

\* narrowing with the whole range is the identity, and narrowing composes like indexing a list
NarrowLaws ==
  \A b0 \in Bases : D(b0).ok =>
     /\ Narrow(b0, PyAll, PyAll, RowLabels, ColLabels).wells = D(b0).wells
     /\ \A i \in 0..(NR - 1) : Narrow(b0, PyAt(i), PyAll, RowLabels, ColLabels) = Narrow(b0, PySl(i, i + 1, 0), PyAll, RowLabels, ColLabels)
ASSUME NarrowLaws

\* emission: one line per selector
Emit == PrintT(ToJson([sel |-> sel, den |-> D(sel)]))

-----------------------------------------------------------------------------
(* laws of the denotation *)
OnPlate == D(sel).ok => \A j \in DOMAIN D(sel).wells :
              /\ D(sel).wells[j][1] \in 1..NR
              /\ D(sel).wells[j][2] \in 1..NC

\* a slice denotes the ordered set {i : lo <= i <= hi, (i - lo) mod st = 0}
SliceIsOrderedSet ==
  (sel.k = "slice" /\ D(sel).ok) =>
     LET a == Axis(sel, RowLabels)
         lo == IF sel.lo.k = "none" THEN 1 ELSE Single(sel.lo, RowLabels)
         hi == IF sel.hi.k = "none" THEN NR ELSE Single(sel.hi, RowLabels)
         st == IF sel.st = 0 THEN 1 ELSE sel.st
     IN  /\ {a.idx[j] : j \in DOMAIN a.idx} = {i \in 1..NR : lo <= i /\ i <= hi /\ (i - lo) % st = 0}
         /\ \A j \in DOMAIN a.idx : j > 1 => a.idx[j - 1] < a.idx[j]

\* row-major order of rectangular selections
RowMajor == (D(sel).ok /\ sel.k \notin {"list"}) =>
              \A j \in DOMAIN D(sel).wells : j > 1 =>
                 LET p == D(sel).wells[j - 1]
                     q == D(sel).wells[j]
                 IN  p[1] < q[1] \/ (p[1] = q[1] /\ p[2] < q[2])

\* size = product of the shape
ShapeMatches == D(sel).ok => Len(D(sel).wells) = (IF Len(D(sel).shape) = 1 THEN D(sel).shape[1] ELSE D(sel).shape[1] * D(sel).shape[2])

\* 'A:1' = ('A', 1) = (1, 1); labels and integers are interchangeable
Interchange ==
  \A r \in 1..NR, c \in 1..NC :
     /\ D(Str(RowLabels[r], ColLabels[c])).wells = <<<<r, c>>>>
     /\ D(Pair(Lbl(RowLabels[r]), IntN(c))) = D(Str(RowLabels[r], ColLabels[c]))
     /\ D(Pair(IntN(r), IntN(c))) = D(Str(RowLabels[r], ColLabels[c]))
     /\ D(Pair(IntN(r), Lbl(ColLabels[c]))) = D(Str(RowLabels[r], ColLabels[c]))
     /\ D(IntN(r)) = D(Lbl(RowLabels[r]))
     /\ D(Pair(Slc(IntN(r), None, 0), IntN(c))) = D(Pair(Slc(Lbl(RowLabels[r]), None, 0), Lbl(ColLabels[c])))
ASSUME Interchange

\* default labels (rows A..Z, AA, AB, ...; columns 1, 2, ...)
ASSUME /\ RowLabel(1) = "A" /\ RowLabel(26) = "Z" /\ RowLabel(27) = "AA" /\ RowLabel(28) = "AB" /\ RowLabel(53) = "BA"
       /\ NatStr(1) = "1" /\ NatStr(12) = "12" /\ NatStr(100) = "100"
=============================================================================
