SPECIFICATION TraceSpec
INVARIANT LOneOpenStage
INVARIANT LLockedMeansAllUsed
PROPERTY TLockedFreezes
POSTCONDITION TraceAccepted
CHECK_DEADLOCK FALSE
