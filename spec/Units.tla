------------------------------- MODULE Units -------------------------------
(***************************************************************************)
(* Quantities, SI prefixes, unit conversion, quantity / concentration      *)
(* strings and human-readable rescaling (properties C06, C14, C19).        *)
(*                                                                         *)
(* Values span 10^-12 .. 10^9, beyond TLC's 32-bit integers, so a value is *)
(* a "scientific rational" [m |-> rational mantissa, e |-> decimal         *)
(* exponent] denoting m * 10^e; equality of denotations is decided after   *)
(* normalising the mantissa to have no factor 10.                          *)
(*                                                                         *)
(* Three machines share the module (constant Mode):                        *)
(*  "convert" a quantity of a substance being converted from unit to unit  *)
(*            (Unit.convert_from); the laws of C06 are invariants of its   *)
(*            paths: Composition, RoundTrip, zero and rejection rules;     *)
(*  "parse"   structured quantity / concentration strings and their SI     *)
(*            denotation; every equivalence family has one denotation;     *)
(*  "rescale" Unit.get_human_readable_unit: the rescaled value denotes the *)
(*            same physical amount.                                        *)
(***************************************************************************)
EXTENDS Chem, TLC, Json

CONSTANTS Mode, Mantissas, MaxChain

-----------------------------------------------------------------------------
(* scientific rationals *)
\* canonical form: the mantissa's denominator is coprime to 10 and its numerator is not a multiple of 10
\* (n/(2d) = 5n/(10d), n/(5d) = 2n/(10d)), so equal denotations are equal values
RECURSIVE Canon(_, _, _)
Canon(nu, de, e) == IF de % 2 = 0 THEN Canon(nu * 5, de \div 2, e - 1)
                    ELSE IF de % 5 = 0 THEN Canon(nu * 2, de \div 5, e - 1)
                    ELSE IF nu # 0 /\ nu % 10 = 0 THEN Canon(nu \div 10, de, e + 1)
                    ELSE <<nu, de, e>>

SNorm(m, e) ==
  IF m[1] = 0 THEN [m |-> Zero, e |-> 0]
  ELSE LET c == Canon(m[1], m[2], e) IN [m |-> <<c[1], c[2]>>, e |-> c[3]]

Sci(m, e)   == SNorm(m, e)
SMul(x, r)  == SNorm(Mul(x.m, r), x.e)            \* times a rational
SShift(x, k) == SNorm(x.m, x.e + k)               \* times 10^k
SZero == [m |-> Zero, e |-> 0]
SIsZero(x) == x.m[1] = 0

-----------------------------------------------------------------------------
(* prefixes: the table of Unit.convert_prefix_to_multiplier *)
Prefixes == <<"n", "u", "m", "c", "d", "", "da", "k", "M">>
PExp == [n |-> -9, u |-> -6, m |-> -3, c |-> -2, d |-> -1, da |-> 1, k |-> 3, M |-> 6] @@ ("" :> 0)
PrefixSet == {Prefixes[i] : i \in DOMAIN Prefixes}

-----------------------------------------------------------------------------
(* C06: conversion of an amount of substance s between base units          *)
(* Factor(s, u1, u2): what one u1 of s measures in u2 (model units);        *)
(* zero where the substance does not carry the target dimension.           *)
Rejected(s, u1) == u1 = "U" /\ ~IsEnzyme(s)          \* a non-enzyme cannot be measured in activity units

Factor(s, u1, u2) ==
  IF IsZero(PerUnit(s, u1)) THEN Zero                 \* the source dimension is empty for s (enzyme moles)
  ELSE Div(PerUnit(s, u2), PerUnit(s, u1))

\* value x (Sci) of s given in prefix p1 of unit u1, expressed in prefix p2 of unit u2
ConvertOp(s, x, u1, p1, u2, p2) == SShift(SMul(x, Factor(s, u1, u2)), PExp[p1] - PExp[p2])

VARIABLES cur,      \* [s, u, p, x] the quantity now: substance, unit, prefix, value in that prefixed unit
          origin,   \* the quantity the chain started from
          clean,    \* no conversion on the chain had a zero factor
          n,        \* chain length
          last

vars == <<cur, origin, clean, n, last>>
View == <<cur, origin, clean, n>>

UnitsOf(s) == IF IsEnzyme(s) THEN QUnits ELSE QUnits \ {"U"}     \* starting units (U is rejected for non-enzymes)

InitConvert == /\ \E s \in Subst, u \in QUnits, p \in PrefixSet, mnt \in Mantissas :
                    cur = [s |-> s, u |-> u, p |-> p, x |-> Sci(mnt, 0)]
               /\ origin = cur /\ clean = TRUE /\ n = 0 /\ last = [op |-> "init"]

Convert(u2, p2) ==
  LET s == cur.s IN
  IF Rejected(s, cur.u)
  THEN /\ UNCHANGED <<cur, origin, clean>> /\ n' = n + 1
       /\ last' = [op |-> "convert", s |-> s, u1 |-> cur.u, p1 |-> cur.p, x |-> cur.x, u2 |-> u2, p2 |-> p2,
                   res |-> "ValueError", y |-> SZero]
  ELSE LET y == ConvertOp(s, cur.x, cur.u, cur.p, u2, p2) IN
       /\ cur' = [s |-> s, u |-> u2, p |-> p2, x |-> y]
       /\ clean' = (clean /\ ~IsZero(Factor(s, cur.u, u2)))
       /\ n' = n + 1 /\ UNCHANGED origin
       /\ last' = [op |-> "convert", s |-> s, u1 |-> cur.u, p1 |-> cur.p, x |-> cur.x, u2 |-> u2, p2 |-> p2,
                   res |-> "ok", y |-> y]

NextConvert == n < MaxChain /\ \E u2 \in QUnits, p2 \in PrefixSet : Convert(u2, p2)

\* laws
\* (an origin whose dimension the substance does not carry - an enzyme "in moles" - converts to zero everywhere)
Carried(q) == ~IsZero(PerUnit(q.s, q.u))
Composition == (Mode = "convert" /\ clean /\ Carried(origin)) =>
                 cur.x = ConvertOp(origin.s, origin.x, origin.u, origin.p, cur.u, cur.p)
RoundTrip   == (Mode = "convert" /\ clean /\ Carried(origin) /\ cur.u = origin.u /\ cur.p = origin.p) => cur.x = origin.x
NoMolesNoActivity ==
  Mode = "convert" =>
    /\ (IsEnzyme(cur.s) /\ cur.u = "mol" /\ n > 0) => SIsZero(cur.x)
    /\ (~IsEnzyme(cur.s) /\ cur.u = "U" /\ cur # origin) => SIsZero(cur.x)
Linear == \A s \in Subst : \A u1 \in UnitsOf(s), u2 \in QUnits, mnt \in Mantissas :
            ConvertOp(s, Sci(Mul(mnt, I(2)), 0), u1, "", u2, "") = SMul(ConvertOp(s, Sci(mnt, 0), u1, "", u2, ""), I(2))
ASSUME Linear

-----------------------------------------------------------------------------
(* C14: structured strings and their denotation                             *)
(* quantity form   [v, p, u]                 "v pu"      -> v * 10^PExp[p] in base unit u            *)
(* concentration   [v, np, nu, dv, dp, du]   "v npnu/dv dpdu" -> v * 10^(PExp[np]-PExp[dp]) / dv in nu/du *)
(* named spellings [v, name] for M, mM, uM (mol/L), m (mol/kg), %w/w, %v/v, %w/v (g/mL)            *)
QDen(f) == SShift(Sci(f.v, 0), PExp[f.p])
CDen(f) == SShift(SMul(Sci(f.v, 0), Inv(f.dv)), PExp[f.np] - PExp[f.dp])

Named == [M    |-> [nu |-> "mol", du |-> "L", e |-> 0],   mM |-> [nu |-> "mol", du |-> "L", e |-> -3],
          uM   |-> [nu |-> "mol", du |-> "L", e |-> -6],  m  |-> [nu |-> "mol", du |-> "g", e |-> -3],
          nM   |-> [nu |-> "mol", du |-> "L", e |-> -9],  kM |-> [nu |-> "mol", du |-> "L", e |-> 3],
          MM   |-> [nu |-> "mol", du |-> "L", e |-> 6],   \* prefixed molal: mm = mmol/kg, um = umol/kg, km = kmol/kg
          mm   |-> [nu |-> "mol", du |-> "g", e |-> -6],  um |-> [nu |-> "mol", du |-> "g", e |-> -9],
          km   |-> [nu |-> "mol", du |-> "g", e |-> 0],
          pww  |-> [nu |-> "g", du |-> "g", e |-> -2],    pvv |-> [nu |-> "L", du |-> "L", e |-> -2],
          pwv  |-> [nu |-> "g", du |-> "L", e |-> 1]]     \* %w/v: g per 100 mL = 10 g/L
NDen(f) == SShift(Sci(f.v, 0), Named[f.name].e)

\* an equivalence family: the same ratio r (in base units nu/du) spelled with other prefixes and denominator values
Spell(r, np, dp, dv) == [v |-> SMul(SShift(r, PExp[dp] - PExp[np]), dv), np |-> np, dp |-> dp, dv |-> dv]

VARIABLES form     \* parse mode: the form under consideration, with its family's ratio
varsP == <<form, last>>

DenVals == {One, I(10), R(1, 2)}
InitParse ==
  /\ \/ \E mnt \in Mantissas, p \in PrefixSet, u \in QUnits :
          form = [k |-> "q", v |-> mnt, p |-> p, u |-> u, den |-> QDen([v |-> mnt, p |-> p])]
     \/ \E mnt \in Mantissas, e \in {-3, 0, 2}, nu \in QUnits, du \in QUnits, np \in {"", "m", "u", "k"},
           dp \in {"", "m", "u", "k"}, dv \in DenVals :
          LET r == Sci(mnt, e)
              sp == Spell(r, np, dp, dv)
          IN  form = [k |-> "c", nu |-> nu, du |-> du, np |-> np, dp |-> dp, dv |-> dv, x |-> sp.v, den |-> r]
     \/ \E mnt \in Mantissas, name \in DOMAIN Named :
          form = [k |-> "n", name |-> name, v |-> mnt, nu |-> Named[name].nu, du |-> Named[name].du,
                  den |-> NDen([v |-> mnt, name |-> name])]
  /\ last = [op |-> "init"]

\* one denotation per family: re-deriving the ratio from the spelled value gives the family's ratio back
FamilyOneDenotation ==
  Mode = "parse" =>
    /\ form.k = "c" => /\ form.x.m[2] > 0
                       /\ SShift(SMul(form.x, Inv(form.dv)), PExp[form.np] - PExp[form.dp]) = form.den
    /\ form.k = "n" => form.den = SShift(Sci(form.v, 0), Named[form.name].e)
    /\ form.k = "q" => form.den = SShift(Sci(form.v, 0), PExp[form.p])

-----------------------------------------------------------------------------
(* C19: get_human_readable_unit(value, unit) rescales to '', 'm' or 'u'     *)
(* so that 1 <= value < 1000 where possible; never below micro.  The       *)
(* rescaled pair must denote the same physical amount.                     *)
\* decimal magnitude of a positive value: the k with 1 <= x / 10^k < 10
Mag(x) == LET RECURSIVE Up(_, _)
              Up(r, k) == IF Lt(r, One) THEN Up(Mul(r, I(10)), k - 1)
                          ELSE IF Le(I(10), r) THEN Up(Div(r, I(10)), k + 1) ELSE k
          IN  Up(x.m, 0) + x.e

RescaleOp(x) ==          \* x > 0 in base units; returns [p, v] with v in prefix p
  LET k == Mag(x) IN
  IF k >= 0 THEN [p |-> "", v |-> x]
  ELSE IF k >= -3 THEN [p |-> "m", v |-> SShift(x, 3)]
  ELSE [p |-> "u", v |-> SShift(x, 6)]

VARIABLES rq
varsR == <<rq, last>>
InitRescale == /\ \E mnt \in Mantissas, e \in -9..4, u \in QUnits :
                    rq = [x |-> Sci(mnt, e), u |-> u, r |-> RescaleOp(Sci(mnt, e))]
               /\ last = [op |-> "init"]
RescalePreserves == Mode = "rescale" => SShift(rq.r.v, PExp[rq.r.p]) = rq.x
RescaleReadable  == Mode = "rescale" => (Mag(rq.x) >= -6 => (Mag(rq.r.v) >= 0 /\ (rq.r.p # "" => Mag(rq.r.v) <= 2)))

-----------------------------------------------------------------------------
Dummy == [op |-> "none"]
Init == CASE Mode = "convert" -> InitConvert /\ form = Dummy /\ rq = Dummy
          [] Mode = "parse"   -> InitParse /\ cur = Dummy /\ origin = Dummy /\ clean = TRUE /\ n = 0 /\ rq = Dummy
          [] Mode = "rescale" -> InitRescale /\ cur = Dummy /\ origin = Dummy /\ clean = TRUE /\ n = 0 /\ form = Dummy

Step == Mode = "convert" /\ NextConvert /\ UNCHANGED <<form, rq>>
Emit == PrintT(ToJson(last'))
Next == Step /\ Emit
allvars == <<cur, origin, clean, n, last, form, rq>>
Spec == Init /\ [][Next]_allvars
SpecQuiet == Init /\ [][Step]_allvars
AllView == <<cur, origin, clean, n, form, rq>>

\* table export for the init-only modes: one JSON line per initial state, printed from an invariant
EmitState == IF Mode = "parse" THEN PrintT(ToJson(form)) ELSE IF Mode = "rescale" THEN PrintT(ToJson(rq)) ELSE TRUE
=============================================================================
