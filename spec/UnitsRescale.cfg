SPECIFICATION SpecQuiet
CONSTANTS
  Subst <- U_Subst
  Mantissas <- U_Mantissas
  Mode = "rescale"
  MaxChain = 0
VIEW AllView
INVARIANT RescalePreserves
INVARIANT RescaleReadable
INVARIANT EmitState
CHECK_DEADLOCK FALSE
