--------------------------- MODULE LifecycleTrace ---------------------------
(***************************************************************************)
(* Trace validation (code -> spec): every Recipe API call made by a        *)
(* recorded execution of the real library - the repository's own tests and *)
(* examples running under the recording plugin - is checked against the    *)
(* actions of Lifecycle.tla.  One event per call:                          *)
(*   [m, n | ops, creates, marks | stage, out, post]                       *)
(* `out` is "ok" or the name of the exception class; `post` is the         *)
(* observable recipe state after the call (number of steps, declared       *)
(* names, locked flag).  All traces of a session are validated by one TLC  *)
(* run: tid is the trace being consumed, l the position in it.             *)
(*                                                                         *)
(* A call that the discipline allows may still be refused for its VALUES   *)
(* (ill-typed or infeasible arguments: the tests do that on purpose); such *)
(* a refusal must be an exception other than RuntimeError and must leave   *)
(* the state unchanged.  A call the discipline forbids must raise (and     *)
(* RuntimeError exactly when the recipe is locked); a call logged as "ok"  *)
(* must be an enabled Lifecycle action whose effect equals the logged      *)
(* post-state.                                                             *)
(***************************************************************************)
EXTENDS Lifecycle, Json, IOUtils, TLC

Traces == JsonDeserialize(IOEnv.TRACE_FILE)

VARIABLES tid, l
VARIABLE lost          \* a recipe whose bake failed was baked again: nothing is specified any more
tvars == <<declared, used, stageNames, cur, locked, nsteps, dead, tid, l, lost>>

ToSet(s) == {s[i] : i \in DOMAIN s}
StepMethods == {"transfer", "create_container", "create_solution", "create_solution_from", "remove", "dilute", "fill_to"}

E == Traces[tid][l]

\* (also after a bake that failed part-way: the steps, the declared names and the lock are still specified)
PostOK(e) == /\ e.post.nsteps = nsteps'
             /\ ToSet(e.post.declared) = declared'
             /\ e.post.locked = locked'

Failed(out) == out # "ok"
ValueRefusal(out) == out \notin {"ok", "RuntimeError"}

TUses(e) ==
  /\ e.m = "uses"
  /\ \/ e.out = "ok" /\ LUses(e.n)
     \/ /\ Failed(e.out) /\ UsesOutcome(e.n) # "ok"
        /\ (UsesOutcome(e.n) = "RuntimeError" <=> e.out = "RuntimeError")
        /\ UNCHANGED lvars
     \/ ValueRefusal(e.out) /\ e.n = "?" /\ UNCHANGED lvars                 \* an argument that is no container or plate

TStep(e) ==
  /\ e.m \in StepMethods
  /\ LET ops == ToSet(e.ops)
         want == StepOutcome(ops \ {"?"}, e.creates)
     IN  \/ e.out = "ok" /\ "?" \notin ops /\ LStep(ops, e.creates, ToSet(e.marks))
         \/ e.out = "RuntimeError" /\ want = "RuntimeError" /\ UNCHANGED lvars
         \/ ValueRefusal(e.out) /\ want # "RuntimeError" /\ UNCHANGED lvars   \* undeclared / duplicate, or a value-level refusal

TStage(e) ==
  \/ /\ e.m = "start_stage"
     /\ \/ e.out = "ok" /\ LStart(e.stage)
        \/ e.out = "RuntimeError" /\ StartOutcome(e.stage) = "RuntimeError" /\ UNCHANGED lvars
        \/ ValueRefusal(e.out) /\ StartOutcome(e.stage) = "refused" /\ UNCHANGED lvars
  \/ /\ e.m = "end_stage"
     /\ \/ e.out = "ok" /\ LEnd(e.stage)
        \/ e.out = "RuntimeError" /\ EndOutcome(e.stage) = "RuntimeError" /\ UNCHANGED lvars
        \/ ValueRefusal(e.out) /\ EndOutcome(e.stage) = "refused" /\ UNCHANGED lvars

TBake(e) ==
  /\ e.m = "bake"
  /\ \/ e.out = "ok" /\ LBake
     \/ e.out = "RuntimeError" /\ BakeOutcome = "RuntimeError" /\ UNCHANGED lvars
     \/ ValueRefusal(e.out) /\ BakeOutcome = "refused" /\ UNCHANGED lvars     \* a declared object is unused: nothing happens
     \/ ValueRefusal(e.out) /\ BakeOutcome = "ok" /\ LBakeFail               \* an infeasible step: the recipe is abandoned

Consume ==
  /\ tid <= Len(Traces) /\ l <= Len(Traces[tid])
  /\ \/ lost /\ UNCHANGED lvars /\ UNCHANGED lost                                          \* anything goes
     \* after a failed bake the recipe is not locked: declaring and step-adding calls keep their discipline, stage calls
     \* must not raise RuntimeError, and baking again leaves the specified world
     \/ ~lost /\ dead /\ (TUses(E) \/ TStep(E)) /\ PostOK(E) /\ UNCHANGED lost
     \/ ~lost /\ dead /\ E.m \in {"start_stage", "end_stage"} /\ E.out # "RuntimeError" /\ UNCHANGED lvars /\ UNCHANGED lost
     \/ ~lost /\ dead /\ E.m = "bake" /\ UNCHANGED lvars /\ lost' = TRUE
     \/ ~lost /\ ~dead /\ (TUses(E) \/ TStep(E) \/ TStage(E) \/ TBake(E)) /\ PostOK(E) /\ UNCHANGED lost
  /\ l' = l + 1 /\ tid' = tid
  /\ TLCSet(2, <<tid, l>>)

NextTrace ==
  /\ tid <= Len(Traces) /\ l > Len(Traces[tid])
  /\ tid' = tid + 1 /\ l' = 1
  /\ declared' = {} /\ used' = {} /\ stageNames' = {} /\ cur' = "all" /\ locked' = FALSE /\ nsteps' = 0 /\ dead' = FALSE
  /\ lost' = FALSE
  /\ TLCSet(1, tid)

TraceInit == LInit /\ lost = FALSE /\ tid = 1 /\ l = 1 /\ TLCSet(1, 0) /\ TLCSet(2, <<0, 0>>)
TraceNext == Consume \/ NextTrace
TraceSpec == TraceInit /\ [][TraceNext]_tvars

TLockedFreezes == [][(locked /\ tid' = tid) => UNCHANGED lvars]_tvars

\* every invariant of the discipline is evaluated on the states the implementation went through
TraceAccepted == /\ PrintT(<<"VALIDATED", TLCGet(1), "of", Len(Traces), "last", TLCGet(2)>>)
                 /\ TLCGet(1) = Len(Traces)
=============================================================================
