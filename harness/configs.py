"""Storage configurations for C18: copies of the repository's own pyplate.yaml that differ only in the storage
units, the internal precision and the default densities."""
import os
import re

from tlcrun import BUILD

CONFIGS = {
    "mL_mmol": dict(volume_storage_unit="mL", moles_storage_unit="mmol"),
    "L_mol": dict(volume_storage_unit="L", moles_storage_unit="mol"),
    "nL_nmol": dict(volume_storage_unit="nL", moles_storage_unit="nmol"),
    "uL_mol": dict(volume_storage_unit="uL", moles_storage_unit="mol"),
    "L_umol": dict(volume_storage_unit="L", moles_storage_unit="umol"),
    "mL_umol_p8": dict(volume_storage_unit="mL", internal_precision="8"),
    "uL_mmol_p12": dict(moles_storage_unit="mmol", internal_precision="12"),
    "dens24": dict(default_solid_density="2", default_enzyme_density="4"),
    "dens2": dict(default_solid_density="2", default_enzyme_density="2"),
    "L_mol_dens2": dict(volume_storage_unit="L", moles_storage_unit="mol", default_solid_density="2", default_enzyme_density="4"),
}
for v in ("uL", "mL", "L", "nL"):
    for m in ("umol", "mmol", "mol", "nmol"):
        CONFIGS.setdefault(f"{v}_{m}", dict(volume_storage_unit=v, moles_storage_unit=m))


def make(name, repo="/repo"):
    """writes build/configs/<name>/pyplate.yaml and returns the directory (value for PYPLATE_CONFIG)."""
    src = os.path.join(os.environ.get("PYPLATE_SRC", repo), "pyplate", "pyplate.yaml")
    with open(src) as fh:
        text = fh.read()
    for k, v in CONFIGS[name].items():
        text, n = re.subn(rf"(?m)^{k}:.*$", f"{k}: {v}", text)
        if n != 1:
            raise RuntimeError(f"setting {k} not found in {src}")
    d = os.path.join(BUILD, "configs", name)
    os.makedirs(d, exist_ok=True)
    with open(os.path.join(d, "pyplate.yaml"), "w") as fh:
        fh.write(text)
    return d
