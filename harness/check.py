"""./bin/check <property> <quick|thorough> [--replay <file>]

Runs the legs that decide one property: TLC on the model instances of that property (invariants, action
properties, emission of every transition), replay of the emitted behaviours into the PyPlate imported from
/repo's current working tree, trace validation of recorded executions by TLC, then the property's monitor,
the known-findings filter, the evidence file.  Exit 0 / 1 (+ VIOLATION line) / 2 (machinery failure)."""
import hashlib
import json
import os
import shutil
import subprocess
import sys
import time
import traceback
from concurrent.futures import ThreadPoolExecutor
import threading
import uuid

HERE = os.path.dirname(os.path.abspath(__file__))
sys.path.insert(0, HERE)
import tlcrun  # noqa: E402
from tlcrun import VERIF, BUILD  # noqa: E402

PY = "/venv/bin/python"
REPO = os.environ.get("PYPLATE_SRC", "/repo")
SCRATCH = os.path.join(BUILD, "scratch")
CACHE = os.path.join(BUILD, "cache")
EVID = os.environ.get("VERIF_EVIDENCE_DIR", os.path.join(VERIF, "evidence"))      # (redirected when a seeded change is evaluated)
NCPU = min(16, os.cpu_count() or 4)

REALISTIC = ("18015.3", "1000000")       # W is water (18.0153 g/mol, 1 g/mL), volumes of ~0.1 L
DECIMAL = ("2000", "20000")              # 2 mL and 20 mmol per model unit (W: 100 g/mol): lattice values with 2^k denominators are
                                         # short decimals and stay in the range where the library's 1e-10 rounding is effective
MICRO = ("36.0306", "1")                 # 36 uL / 1 umol per unit (a heavy solute): the scale of a well, where absolute
                                         # thresholds and roundings in base units (mol, L) show
NANO = ("36.0306", "0.00137")             # 36 uL / 1.37 nmol per unit (not a multiple of 0.1 nmol): one step from the initial state only
PICO = ("36.0306", "0.00037")            # 36 uL / 0.37 nmol per unit: residues and aliquots below a nanomole (and below 1e-3 storage units)
SUBDISPLAY = ("36.0306", "0.032")         # 36 uL / 32 nmol per unit: single steps move less than the display precision of umol and mg
NANOSOL = ("3.603061", "0.00137")        # 3.6 uL / 1.37 nmol per unit: solutions made from nanomoles of stock and of solvent
SUBMICROMOLAR = ("360.3061", "0.00137")  # 0.36 mL / 1.37 nmol per unit: stocks of a few hundred nanomolar (ligands, enzymes, dyes)
TINY = ("36.0306", "0.1")                # 36 uL / 0.1 umol per unit: sub-micromole amounts (a heavy solute)
BIG = ("1801530", "100000000")           # 1.8 L / 100 mol per unit: stays far above the rounding quantum of every storage configuration


DEC_OVR = {"Fracs": "HalfFracs", "DenBound": "64"}     # decimal-exact legs: halves only, denominators <= 64


SEM = threading.BoundedSemaphore(NCPU)    # at most one worker process per core, whatever the number of legs in flight


class Machinery(Exception):
    pass


# ---- tree hash and cache --------------------------------------------------------------------------------------
def tree_hash():
    h = hashlib.sha256()
    for root in (os.path.join(REPO, "pyplate"), os.path.join(VERIF, "spec"), HERE):
        for dp, dn, fn in sorted(os.walk(root)):
            dn[:] = sorted(d for d in dn if d != "__pycache__")
            for f in sorted(fn):
                if f.endswith((".py", ".yaml", ".tla", ".cfg")):
                    p = os.path.join(dp, f)
                    h.update(p.encode())
                    with open(p, "rb") as fh:
                        h.update(fh.read())
    kf = os.path.join(VERIF, "known_findings.json")
    return h.hexdigest()[:20]


def cached(key, fn):
    """legs shared by several properties are executed once per tree state (DESIGN 8)."""
    if os.environ.get("VERIF_NOCACHE"):
        return fn()
    os.makedirs(CACHE, exist_ok=True)
    path = os.path.join(CACHE, hashlib.sha256(key.encode()).hexdigest()[:24] + ".json")
    if os.path.exists(path):
        try:
            with open(path) as fh:
                r = json.load(fh)
            r["from_cache"] = True
            return r
        except Exception:
            pass
    r = fn()
    r["from_cache"] = False
    tmp = path + f".{os.getpid()}.tmp"
    with open(tmp, "w") as fh:
        json.dump(r, fh)
    os.replace(tmp, path)
    return r


def run_workers(cmds, parallel=NCPU):
    """cmds: list of (argv, env_extra, out_json).  Returns parsed results; raises Machinery on worker failure."""
    os.makedirs(SCRATCH, exist_ok=True)

    def one(c):
        argv, env_extra, out = c
        env = dict(os.environ)
        env.update({"PYTHONHASHSEED": "0", "PYTHONDONTWRITEBYTECODE": "1"})
        env.update(env_extra or {})
        with SEM:
            p = subprocess.run(argv, cwd=SCRATCH, env=env, stdout=subprocess.PIPE, stderr=subprocess.STDOUT, text=True)
        if p.returncode != 0 or not os.path.exists(out):
            raise Machinery(f"worker failed ({p.returncode}): {' '.join(argv[-9:])}\n{p.stdout[-3000:]}")
        with open(out) as fh:
            r = json.load(fh)
        os.remove(out)
        r["_rerun"] = {"argv": argv, "env": env_extra or {}}       # what `--replay` needs to run this shard again
        return r
    with ThreadPoolExecutor(max_workers=parallel) as ex:
        return list(ex.map(one, cmds))


# ---- legs -----------------------------------------------------------------------------------------------------
def lab_leg(instance, depth, nshards, inst, seed, sim=None, overrides=None, env_extra=None, tag=""):
    """returns dict(kind, params, shards=[worker results])"""
    params = dict(kind="lab", instance=instance, depth=depth, nshards=nshards, inst=inst, seed=seed, sim=sim,
                  overrides=overrides, env=env_extra, tag=tag)

    def go():
        os.makedirs(os.path.join(BUILD, "run"), exist_ok=True)
        cmds = []
        for i in range(nshards):
            out = os.path.join(BUILD, "run", f"lab_{instance}_{depth}_{i}_{nshards}_{inst[0]}_{seed}_{tag}_{os.getpid()}.json")
            argv = [PY, os.path.join(HERE, "lab_worker.py"), instance, str(depth), str(i), str(nshards), inst[0], inst[1],
                    str(seed), out]
            if sim:
                argv.append(f"simulate={sim[0]},{sim[1]},{sim[2] + i}")
            for k, v in (overrides or {}).items():
                argv.append(f"override={k}:{v}")
            e = dict(env_extra or {})
            e["VERIF_TAG"] = f"_{tag}_{os.getpid()}_{uuid.uuid4().hex[:6]}"
            cmds.append((argv, e, out))
        t0 = time.time()
        shards = run_workers(cmds)
        return dict(params=params, shards=shards, wall=time.time() - t0)
    return cached(tree_hash() + json.dumps(params, sort_keys=True), go)


def recipe_leg(instance, maxcalls, nshards, inst, seed, sim=None, env_extra=None, tag=""):
    params = dict(kind="recipe", instance=instance, maxcalls=maxcalls, nshards=nshards, inst=inst, seed=seed, sim=sim,
                  env=env_extra, tag=tag)

    def go():
        os.makedirs(os.path.join(BUILD, "run"), exist_ok=True)
        cmds = []
        for i in range(nshards):
            out = os.path.join(BUILD, "run", f"recipe_{instance}_{maxcalls}_{i}_{nshards}_{inst[0]}_{seed}_{tag}_{os.getpid()}.json")
            argv = [PY, os.path.join(HERE, "recipe_worker.py"), instance, str(maxcalls), str(i), str(nshards), inst[0], inst[1], str(seed), out]
            if sim:
                argv.append(f"simulate={sim[0]},{sim[1]},{sim[2] + i}")
            e = dict(env_extra or {})
            e["VERIF_TAG"] = f"_{tag}_{os.getpid()}_{uuid.uuid4().hex[:6]}"
            cmds.append((argv, e, out))
        t0 = time.time()
        shards = run_workers(cmds)
        return dict(params=params, shards=shards, wall=time.time() - t0)
    return cached(tree_hash() + json.dumps(params, sort_keys=True), go)


def trace_leg(tag=""):
    params = dict(kind="trace", tag=tag)

    def go():
        os.makedirs(os.path.join(BUILD, "run"), exist_ok=True)
        out = os.path.join(BUILD, "run", f"trace_{tag}_{os.getpid()}_{uuid.uuid4().hex[:6]}.json")
        t0 = time.time()
        shards = run_workers([([PY, os.path.join(HERE, "trace_worker.py"), out], {"VERIF_TAG": f"_{tag}_{os.getpid()}_{uuid.uuid4().hex[:6]}"}, out)])
        return dict(params=params, shards=shards, wall=time.time() - t0)
    return cached(tree_hash() + json.dumps(params, sort_keys=True), go)


def obs_leg(nworkers, ntraces, nops, inst, seed, tag=""):
    """leg V for the direct API: random histories recorded from the implementation, validated by TLC (LabObs.tla)"""
    params = dict(kind="obs", nworkers=nworkers, ntraces=ntraces, nops=nops, inst=inst, seed=seed, tag=tag)

    def go():
        os.makedirs(os.path.join(BUILD, "run"), exist_ok=True)
        cmds = []
        for i in range(nworkers):
            u = uuid.uuid4().hex[:6]
            out = os.path.join(BUILD, "run", f"obs_{i}_{seed}_{tag}_{os.getpid()}_{u}.json")
            cmds.append(([PY, os.path.join(HERE, "obs_worker.py"), str(ntraces), str(nops), inst[0], inst[1], str(seed * 1000 + i), out],
                         {"VERIF_TAG": f"_{tag}_{os.getpid()}_{u}"}, out))
        t0 = time.time()
        shards = run_workers(cmds)
        return dict(params=params, shards=shards, wall=time.time() - t0)
    return cached(tree_hash() + json.dumps(params, sort_keys=True), go)


def units_leg(inst, seed, env_extra=None, tag=""):
    params = dict(kind="units", inst=inst, seed=seed, env=env_extra, tag=tag)

    def go():
        os.makedirs(os.path.join(BUILD, "run"), exist_ok=True)
        out = os.path.join(BUILD, "run", f"units_{inst[0]}_{seed}_{tag}_{os.getpid()}_{uuid.uuid4().hex[:6]}.json")
        e = dict(env_extra or {})
        e["VERIF_TAG"] = f"_{tag}_{os.getpid()}_{uuid.uuid4().hex[:6]}"
        t0 = time.time()
        shards = run_workers([([PY, os.path.join(HERE, "units_worker.py"), inst[0], inst[1], str(seed), out], e, out)])
        return dict(params=params, shards=shards, wall=time.time() - t0)
    return cached(tree_hash() + json.dumps(params, sort_keys=True), go)


def slicer_leg(shapes, tag=""):
    """shapes: list of (nr, nc, labels, nparts)"""
    params = dict(kind="slicer", shapes=shapes, tag=tag)

    def go():
        os.makedirs(os.path.join(BUILD, "run"), exist_ok=True)
        cmds = []
        for nr, nc, labels, nparts in shapes:
            for k in range(nparts):
                out = os.path.join(BUILD, "run", f"slicer_{nr}_{nc}_{labels}_{k}_{nparts}_{tag}_{os.getpid()}.json")
                cmds.append(([PY, os.path.join(HERE, "slicer_worker.py"), str(nr), str(nc), labels, str(k), str(nparts), out],
                             {"VERIF_TAG": f"_{tag}_{os.getpid()}_{uuid.uuid4().hex[:6]}"}, out))
        t0 = time.time()
        shards = run_workers(cmds)
        return dict(params=params, shards=shards, wall=time.time() - t0)
    return cached(tree_hash() + json.dumps(params, sort_keys=True), go)


SLICER_QUICK = [(1, 1, "default", 1), (1, 2, "default", 1), (2, 1, "default", 1), (2, 2, "default", 1), (1, 3, "default", 1),
                (3, 1, "default", 1), (2, 3, "default", 2), (3, 2, "default", 2), (3, 3, "default", 4), (2, 3, "custom", 2),
                (2, 3, "numeric", 2), (27, 1, "default", 2), (28, 1, "default", 2)]
SLICER_THOROUGH = SLICER_QUICK + [(1, 4, "default", 1), (4, 1, "default", 1), (2, 4, "default", 2), (4, 2, "default", 2),
                                  (3, 4, "default", 4), (4, 3, "default", 4), (4, 4, "default", 6), (3, 3, "custom", 4),
                                  (3, 2, "custom", 2), (1, 27, "default", 1), (4, 4, "custom", 6), (3, 3, "numeric", 4)]

LAB_PROPS = ("C01", "C02", "C03", "C04", "C07", "C10", "C11", "C17", "C19")      # properties decided on Lab instances


def plan(prop, tier, seed):
    """the legs of a property: list of thunks returning leg results."""
    legs = []
    q = tier == "quick"
    if prop in LAB_PROPS:
        if prop in ("C01", "C02", "C03", "C04", "C10", "C19"):
            legs.append(lambda: lab_leg("LabCC", 2 if q else 3, 8 if q else 16, REALISTIC, seed))
        if prop in ("C03", "C04", "C10", "C11", "C17", "C19"):
            legs.append(lambda: lab_leg("LabCF", 2 if q else 3, 16, REALISTIC, seed))
            legs.append(lambda: lab_leg("LabCF", 2, 16, DECIMAL, seed, overrides=DEC_OVR, tag="dec"))
        if prop in ("C01", "C02", "C04", "C07"):
            legs.append(lambda: lab_leg("LabDUP", 2, 8 if q else 16, REALISTIC, seed))
            legs.append(lambda: lab_leg("LabTWIN", 2, 4, REALISTIC, seed))
        if prop in ("C01", "C02", "C03", "C04", "C07", "C10", "C11", "C17", "C19"):
            legs.append(lambda: lab_leg("LabPL", 1 if q else 2, 8 if q else 16, REALISTIC, seed))
            legs.append(lambda: lab_leg("LabPL", 2, 16, DECIMAL, seed, overrides=dict(DEC_OVR, Fracs="PL_FracsQuick", TUnits="QuickUnits"), tag="q2") if q
                        else lab_leg("LabPL", 2, 16, DECIMAL, seed, overrides=DEC_OVR, tag="dec"))
    if prop in ("C01", "C02", "C03", "C10", "C11", "C12", "C17"):
        legs.append(lambda: obs_leg(8 if q else 16, 40 if q else 250, 40 if q else 60, REALISTIC, seed))
        if not q:
            legs.append(lambda: obs_leg(16, 250, 60, DECIMAL, seed + 7, tag="dec"))
    if prop in ("C02", "C05", "C10", "C11", "C19"):
        legs.append(lambda: lab_leg("LabLOT", 2, 2, REALISTIC, seed))
    skipadm = {"VERIF_SKIP_ADMISSIBLE": "1"}
    if prop in ("C02", "C03", "C10", "C11"):
        legs.append(lambda: lab_leg("LabCF", 1, 2, NANO, seed, env_extra=skipadm, tag="nano"))
    if prop in ("C01", "C02", "C03"):
        # sub-nanomole residues: whatever stays behind or arrives, however little, is accounted for
        legs.append(lambda: lab_leg("LabCC", 1, 2, PICO, seed, env_extra=skipadm, tag="pico"))
        legs.append(lambda: lab_leg("LabPL", 1, 8, PICO, seed, env_extra=skipadm, tag="pico"))
    if prop in ("C05", "C12", "C03", "C10"):
        legs.append(lambda: lab_leg("LabSOL", 1, 8, MICRO, seed, env_extra=skipadm, overrides=None if q else {"SolCases": "SOL_Cases", "FromCases": "SOL_FromFull"}, tag="micro"))
    if prop in ("C05", "C12"):
        legs.append(lambda: lab_leg("LabSOL", 1, 8, NANOSOL, seed, env_extra=skipadm, tag="nano"))
    if prop == "C12":
        # stocks below one micromolar (0.48 uM): nothing in the request is small in the units the user states it in
        legs.append(lambda: lab_leg("LabSOL", 1, 8, SUBMICROMOLAR, seed, env_extra=skipadm, overrides={"SolCases": "NoSet"}, tag="subuM"))
    if prop in ("C12", "C03", "C10"):
        # a stock changed by a transfer, a top-up or an earlier withdrawal, then diluted as requested
        legs.append(lambda: lab_leg("LabSOL3", 2, 8, REALISTIC, seed))
    if prop in ("C05", "C04", "C10"):
        # a container that was a solvent, then changed its composition, then is a solvent again
        legs.append(lambda: lab_leg("LabSOL2", 3, 1, REALISTIC, seed))
    if prop in ("C05", "C12", "C03", "C04", "C10", "C19"):
        if q:
            legs.append(lambda: lab_leg("LabSOL", 1, 8, REALISTIC, seed))
        else:
            full = {"SolCases": "SOL_Cases", "FromCases": "SOL_FromFull"}
            legs.append(lambda: lab_leg("LabSOL", 1, 16, REALISTIC, seed, overrides=full, tag="full"))
            legs.append(lambda: lab_leg("LabSOL", 1, 16, DECIMAL, seed, overrides=full, tag="fulldec"))
            legs.append(lambda: lab_leg("LabSOL", 1, 16, ("7777", "310000"), seed, overrides=full, tag="fullodd"))
    if prop == "C16":
        legs.append(lambda: recipe_leg("RecipeLife", 5 if q else 6, 16, REALISTIC, seed))
        legs.append(lambda: trace_leg())
    if prop in ("C08", "C09", "C15", "C16", "C17", "C04", "C03", "C19", "C07", "C11"):
        legs.append(lambda: recipe_leg("RecipeProg", 3 if q else 4, 16, REALISTIC, seed))
        if not q:
            legs.append(lambda: recipe_leg("RecipeProg", 3, 16, DECIMAL, seed, tag="dec"))
            legs.append(lambda: recipe_leg("RecipeCore", 9, 16, REALISTIC, seed, sim=(40, 9, seed * 100 + 1), tag="sim"))
    if prop == "C08":
        # the substance water carries the NAME of the declared container 'a': substances and containers are different namespaces
        legs.append(lambda: recipe_leg("RecipeProg", 3, 16, REALISTIC, seed, env_extra={"VERIF_COLLIDE": "W:a"}, tag="collide"))
    if prop in ("C09", "C15"):
        # steps that each move less than a display unit: the answer is the rounded SUM, not the sum of rounded steps
        legs.append(lambda: recipe_leg("RecipeProg", 3, 16, SUBDISPLAY, seed, env_extra=skipadm, tag="sub"))
    if prop in ("C09", "C15", "C16"):
        # programs continued after a refused bake (declared but unused): the refusal changed nothing, stages included
        legs.append(lambda: recipe_leg("RecipeStageQ", 6, 6, REALISTIC, seed) if q else recipe_leg("RecipeStage", 6, 8, REALISTIC, seed))
    if prop == "C18":
        import configs
        names = ["mL_mmol", "L_mol", "nL_nmol", "L_mol_dens2", "mL_umol_p8"] if q else \
            [f"{v}_{m}" for v in ("uL", "mL", "L", "nL") for m in ("umol", "mmol", "mol", "nmol") if (v, m) != ("uL", "umol")] + \
            ["mL_umol_p8", "uL_mmol_p12", "dens2", "L_mol_dens2"]
        for cn in names:
            def mk(cn=cn):
                env = {"PYPLATE_CONFIG": configs.make(cn)}
                out = [lab_leg("LabCF", 1 if q else 2, 1 if q else 8, BIG, seed, env_extra=env, tag=cn),
                       lab_leg("LabPL", 1, 2 if q else 4, BIG, seed, env_extra=env, tag=cn),
                       lab_leg("LabSOL", 1, 2 if q else 4, BIG, seed, env_extra=env, tag=cn),
                       recipe_leg("RecipeProg", 2 if q else 3, 1 if q else 8, BIG, seed, env_extra=env, tag=cn),
                       units_leg(BIG, seed, env_extra=env, tag=cn)]
                if "mol" in cn.split("_")[1:2] or cn.startswith("L_"):
                    # micro-scale amounts under coarse storage units: only verdicts carry weight there (state comparisons
                    # fall inside the absolute tolerance), which is where a threshold expressed in storage units shows
                    e2 = dict(env, VERIF_SKIP_ADMISSIBLE="1")
                    out.append(lab_leg("LabCC", 1, 1, TINY, seed, env_extra=e2, tag=cn + "tiny"))
                    out.append(lab_leg("LabCF", 1, 1, TINY, seed, env_extra=e2, tag=cn + "tiny"))
                for leg in out:
                    leg["config"] = cn
                return out
            legs.append(mk)
    if prop == "C06":
        # "under any configured default densities": the same table with a solid density of 2 g/mL and an enzyme density of 4 U/mL
        def dens():
            import configs
            return units_leg(REALISTIC, seed, env_extra={"PYPLATE_CONFIG": configs.make("dens24")}, tag="dens24")
        legs.append(dens)
    if prop in ("C06", "C14", "C19"):
        legs.append(lambda: units_leg(REALISTIC, seed))
        if not q:
            legs.append(lambda: units_leg(DECIMAL, seed + 1))
            legs.append(lambda: units_leg(("777.7", "31000"), seed + 2))
    if prop == "C13":
        legs.append(lambda: slicer_leg(SLICER_QUICK if q else SLICER_THOROUGH))
    if prop == "C07":
        # every labelling and geometry: a transfer into each selection of the Slicer enumeration changes exactly the denoted wells
        legs.append(lambda: slicer_leg(SLICER_QUICK if q else SLICER_THOROUGH))
    return legs


# ---- known findings -------------------------------------------------------------------------------------------
def load_findings():
    p = os.path.join(VERIF, "known_findings.json")
    if not os.path.exists(p):
        return []
    with open(p) as fh:
        return json.load(fh).get("findings", [])


def matches(finding, prop, key):
    if prop == "C18" and "orig_property" in key:     # a recorded defect shows under every configuration alike
        prop = key["orig_property"]
    if finding["property"] != prop:
        return False
    for k, want in finding["match"].items():
        have = key.get(k)
        if isinstance(want, list):
            if have not in want and str(have) not in [str(w) for w in want]:
                return False
        elif str(have) != str(want):
            return False
    return True


# ---- main -----------------------------------------------------------------------------------------------------
def main(argv):
    if len(argv) < 2:
        print(__doc__)
        return 2
    prop, tier = argv[0], argv[1]
    if tier == "--replay":
        import replay_file
        return replay_file.main(prop, argv[2])
    seed = int(os.environ.get("VERIF_SEED", "0"))
    t0 = time.time()
    try:
        legs, broken = [], []

        def guarded(th):
            try:
                return th()
            except (Machinery, tlcrun.TLCError, subprocess.SubprocessError) as e:
                return e
        with ThreadPoolExecutor(max_workers=6) as ex:          # legs run side by side; SEM bounds the worker processes
            for r in ex.map(guarded, plan(prop, tier, seed)):
                if isinstance(r, Exception):
                    broken.append(r)
                else:
                    legs.extend(r if isinstance(r, list) else [r])
        if not legs and not broken:
            raise Machinery(f"no legs defined for {prop}")
    except (Machinery, tlcrun.TLCError, subprocess.SubprocessError) as e:
        print(f"MACHINERY-ERROR property={prop}: {e}")
        return 2
    for e in broken:
        print(f"MACHINERY-ERROR property={prop}: {str(e)[:1500]}")
    if not legs:
        return 2
    rc = conclude(prop, tier, seed, legs, time.time() - t0)
    # a leg that could not run makes the run incomplete: violations found by the other legs are still reported (exit 1),
    # but without them the outcome is a machinery failure, never a pass
    return rc if rc == 1 or not broken else 2


def conclude(prop, tier, seed, legs, wall):
    findings = load_findings()
    classes = {}           # frozen class key -> dict(count, sample violation, leg)
    states = transitions = executed = evaluated = skipped = 0
    leg_summ, samples = [], []
    for leg in legs:
        summ = dict(leg["params"])
        summ.update(states=0, transitions=0, executed=0, evaluated=0, skipped_behind_divergence=0, from_cache=leg.get("from_cache"))
        for sh in leg["shards"]:
            if prop == "C18":       # conformance to the one specification under every configuration IS independence
                cn = leg.get("config", leg["params"].get("tag"))
                if str(leg["params"].get("tag", "")).endswith("tiny"):
                    # micro-scale legs: only refusal verdicts with a wide margin are judged (see plan())
                    keep = lambda pr, key: pr == "C03" and key.get("clause") == "infeasible_accepted"
                    sh["violation_counts"] = [vc for vc in sh["violation_counts"] if keep(vc["property"], vc["class_key"])]
                    sh["violations"] = [v for v in sh["violations"] if keep(v["property"], v["class_key"])]
                    sh["evaluated"] = {"C03": sh["evaluated"].get("C03", 0)}
                for vc in sh["violation_counts"]:
                    vc["class_key"] = dict(vc["class_key"], config=cn, orig_property=vc["property"])
                    vc["property"] = "C18"
                for v in sh["violations"]:
                    v["class_key"] = dict(v["class_key"], config=cn, orig_property=v["property"])
                    v["property"] = "C18"
                sh["evaluated"] = {"C18": sum(sh["evaluated"].values())}
            summ["states"] += sh.get("distinct_states", 0)
            summ["transitions"] += sh["tlc"]["generated"] if "tlc" in sh else sh.get("transitions", 0)
            summ["executed"] += sh["counts"].get("executed", 0) if leg["params"]["kind"] in ("lab", "recipe", "obs") else sh["evaluated"].get(prop, 0)
            summ["skipped_behind_divergence"] += sh["counts"].get("skipped_unreachable", 0)
            summ["evaluated"] += sh["evaluated"].get(prop, 0)
            if sh["counts"].get("tlc_truncated_by_32bit_overflow"):
                # (a deep program shard whose last level TLC could not finish within 32-bit integers: everything it printed was replayed)
                summ["tlc_shards_truncated_by_32bit_overflow"] = summ.get("tlc_shards_truncated_by_32bit_overflow", 0) + 1
            for vc in sh["violation_counts"]:
                if vc["property"] != prop:
                    continue
                fk = json.dumps(vc["class_key"], sort_keys=True)
                classes.setdefault(fk, dict(count=0, key=vc["class_key"], sample=None, leg=summ))["count"] += vc["count"]
            for v in sh["violations"]:
                if v["property"] == prop:
                    fk = json.dumps(v["class_key"], sort_keys=True)
                    c = classes.setdefault(fk, dict(count=0, key=v["class_key"], sample=None, leg=summ))
                    if c["sample"] is None:
                        c["sample"] = dict(v, instance=sh.get("instance"), instantiation=sh.get("instantiation"),
                                           config=sh.get("config"), rerun=sh.get("_rerun"), relabelled_from=v["class_key"].get("orig_property"))
            for s in sh.get("samples", [])[:1]:
                if len(samples) < 6:
                    samples.append(s)
        states += summ["states"]; transitions += summ["transitions"]; executed += summ["executed"]
        evaluated += summ["evaluated"]; skipped += summ["skipped_behind_divergence"]
        leg_summ.append(summ)
    # vacuity guard: a property whose monitor never ran decides nothing
    if evaluated == 0:
        print(f"MACHINERY-ERROR property={prop}: the monitor was never evaluated (vacuous run)")
        return 2
    known, new = [], []
    for fk, c in sorted(classes.items()):
        f = next((f for f in findings if matches(f, prop, c["key"])), None)
        (known if f else new).append((c, f))
    rdir = os.path.join(EVID, "replays", prop)
    shutil.rmtree(rdir, ignore_errors=True)
    reported = set()
    for c, f in known:
        if f["id"] not in reported:
            reported.add(f["id"])
            print(f"KNOWN-FINDING: property={prop} {f['id']} {f['what']}")
    for i, (c, _) in enumerate(new):
        os.makedirs(rdir, exist_ok=True)
        path = os.path.join(rdir, f"{tier}_{i}.json")
        with open(path, "w") as fh:
            json.dump(dict(property=prop, tier=tier, seed=seed, class_key=c["key"], count=c["count"], violation=c["sample"]), fh, indent=1)
        detail = (c["sample"] or {}).get("detail", "")
        print(f"VIOLATION property={prop} replay={path}")
        print(f"  class={json.dumps(c['key'], sort_keys=True)} count={c['count']} :: {detail[:300]}")
    write_evidence(prop, tier, seed, dict(states=states, transitions=transitions, executed=executed, evaluated=evaluated,
                                          skipped=skipped, legs=leg_summ, samples=samples,
                                          known=[dict(id=f["id"], count=c["count"], class_key=c["key"]) for c, f in known],
                                          new=len(new)), wall)
    print(f"{prop} {tier}: {len(leg_summ)} legs, {transitions} transitions generated by TLC, {executed} executed on the implementation, "
          f"monitor evaluated {evaluated} times, {len(new)} new violation classes, {len(known)} known-finding classes, {wall:.1f}s")
    return 1 if new else 0


def write_evidence(prop, tier, seed, cov, wall):
    import evidence_text
    os.makedirs(EVID, exist_ok=True)
    ev = {
        "property_id": prop, "tier": tier, "seed": seed, "level": "model_checking",
        "coverage": {
            "states": max(cov["states"], 1), "transitions": max(cov["transitions"], 1),
            "traces_validated_against_impl": cov["evaluated"],
            "samples": cov["samples"] or [{"note": "no sample recorded"}],
            "executed_on_implementation": cov["executed"],
            "skipped_behind_divergence": cov["skipped"],
            "legs": cov["legs"], "known_finding_classes": cov["known"], "new_violation_classes": cov["new"],
            "rule": evidence_text.RULE.get(prop, evidence_text.RULE["default"]),
            "exhaustive": evidence_text.EXHAUSTIVE.get(prop, False),
        },
        "assumptions": evidence_text.ASSUMPTIONS,
        "wall_s": round(wall, 2), "violations": cov["new"],
    }
    with open(os.path.join(EVID, f"{prop}.json"), "w") as fh:
        json.dump(ev, fh, indent=1)


if __name__ == "__main__":
    try:
        sys.exit(main(sys.argv[1:]))
    except Exception:
        traceback.print_exc()
        sys.exit(2)
