"""Run TLC on an instance of the specification and read back what it did."""
import json
import os
import re
import shutil
import subprocess
import time

VERIF = os.path.dirname(os.path.dirname(os.path.abspath(__file__)))
SPEC = os.path.join(VERIF, "spec")
BUILD = os.path.join(VERIF, "build")
JAR = "/opt/veriftools/tla/tla2tools.jar:/opt/veriftools/tla/CommunityModules-deps.jar"


class TLCError(Exception):
    """TLC reported an error on the specification itself (a defect of the model, never of PyPlate)."""


def run_tlc(module, cfg=None, workdir=None, workers=1, simulate=None, depth=None, seed=None, coverage=False,
            timeout=3600, env_extra=None, java_opts=None, tag=None, module_dir=None, tolerate_overflow=False):
    """Runs TLC; returns dict(out=<stdout path>, generated, distinct, depth, wall, coverage).

    simulate: None or "num=N" string; TLC's stdout (with the emitted JSON lines) is kept in <workdir>/<tag>.out."""
    cfg = cfg or os.path.join(SPEC, module + ".cfg")
    tag = tag or os.path.basename(cfg)[:-4]
    workdir = workdir or os.path.join(BUILD, "tlc")
    os.makedirs(workdir, exist_ok=True)
    meta = os.path.join(workdir, tag + ".meta")
    shutil.rmtree(meta, ignore_errors=True)
    out = os.path.join(workdir, tag + ".out")
    # single-worker TLC processes run side by side (one per shard): serial GC and a bounded heap keep 16 JVMs
    # from fighting over the cores with 16 GC threads each
    gc = ["-XX:+UseSerialGC", "-Xmx3g"] if workers == 1 else ["-XX:+UseParallelGC", f"-XX:ParallelGCThreads={max(2, workers)}", "-Xmx8g"]
    cmd = ["java"] + gc + ["-Xss16m", "-XX:TieredStopAtLevel=4"] + (java_opts or []) + ["-cp", JAR, "tlc2.TLC",
           "-workers", str(workers), "-metadir", meta, "-noGenerateSpecTE", "-config", cfg]
    if coverage:
        cmd += ["-coverage", "1"]
    if simulate:
        cmd += ["-simulate", simulate]
        if depth:
            cmd += ["-depth", str(depth)]
    if seed is not None:
        cmd += ["-seed", str(seed)]
    cmd.append(module + ".tla")
    env = dict(os.environ)
    env.update(env_extra or {})
    t0 = time.time()
    with open(out, "w") as fh:
        p = subprocess.run(cmd, cwd=module_dir or SPEC, stdout=fh, stderr=subprocess.STDOUT, env=env, timeout=timeout)
    wall = time.time() - t0
    shutil.rmtree(meta, ignore_errors=True)
    if cfg.startswith(BUILD):
        try:
            os.remove(cfg)
        except OSError:
            pass
    info = parse_out(out)
    info.update(out=out, wall=wall, rc=p.returncode, cmd=" ".join(cmd[cmd.index("tlc2.TLC"):]))
    if tolerate_overflow and info.get("error") and "Overflow when computing" in info["error"]:
        # TLC's integers are 32 bit and it stops at the first product that leaves the range (it never wraps).  Breadth-first
        # search had then completed every level below the one it was working on, and every transition it printed is a
        # transition of the specification: the exploration is TRUNCATED (reported as such), not wrong.
        info["truncated"] = info["error"][:120]
        info["error"] = None
        return info
    if p.returncode != 0 and not (simulate and info.get("error") is None):
        raise TLCError(f"TLC exit {p.returncode} on {module}/{cfg}: {info.get('error')}\n(see {out})")
    if info.get("error"):
        raise TLCError(f"TLC error on {module}/{cfg}: {info['error']}\n(see {out})")
    return info


_GEN = re.compile(r"^(\d[\d,]*) states generated, (\d[\d,]*) distinct states found")
_DEPTH = re.compile(r"^The depth of the complete state graph search is (\d+)")
_COV = re.compile(r"^<(\w+) line (\d+), col \d+ to line \d+, col \d+ of module (\w+)>: (\d+):(\d+)")


def parse_out(path):
    info = {"generated": 0, "distinct": 0, "depth": 0, "error": None, "coverage": {}}
    err = []
    with open(path, errors="replace") as fh:
        for line in fh:
            if line.startswith('"'):
                continue
            m = _GEN.match(line)
            if m:
                info["generated"] = int(m.group(1).replace(",", ""))
                info["distinct"] = int(m.group(2).replace(",", ""))
                continue
            m = _DEPTH.match(line)
            if m:
                info["depth"] = int(m.group(1))
                continue
            m = _COV.match(line)
            if m:
                key = f"{m.group(3)}!{m.group(1)}"
                info["coverage"][key] = max(info["coverage"].get(key, 0), int(m.group(5)))
                continue
            if line.startswith("Error:") or "is violated" in line or line.startswith("TLC threw"):
                err.append(line.strip())
            elif err and len(err) < 12 and line.strip():
                err.append(line.strip())
    if err:
        info["error"] = " | ".join(err[:12])
    return info


def emitted(path):
    """Yields the values printed with PrintT(ToJson(..)) / PrintT(<string>) in TLC's stdout, in order."""
    with open(path, errors="replace") as fh:
        for line in fh:
            if line.startswith('"'):
                try:
                    s = json.loads(line)
                except json.JSONDecodeError:
                    continue
                yield s
