"""Projection of implementation objects onto the abstract state, fingerprints, comparisons."""
import math
from fractions import Fraction as F

from model import KIND, VOLPER, INF


class Proj:
    def __init__(self, inst):
        self.inst = inst
        self.pp = inst.pp
        quantum = 10.0 ** (-inst.precision)
        self.quantum = quantum

    # ---- tolerances (DESIGN 4.2) -------------------------------------------------------------------------
    def tol(self, expected, k=1, scale=0.0):
        """scale: storage units per model unit of the compared quantity; amounts of ~100 model units are subtracted
        from one another, so differences carry double-precision noise of ~1e-14 * 100 * scale whatever the
        library's rounding quantum is (it matters for nL / nmol storage, where values reach 1e11)."""
        # extra_rel: set by the replay for transitions on paths through operations driven by a STATED CONCENTRATION - the
        # library rounds a parsed concentration c to its quantum, so everything derived from it is uncertain by quantum / c
        return (1e-6 + getattr(self, "extra_rel", 0.0)) * abs(expected) + 100 * self.quantum * max(k, 1) + 2e-11 * scale

    def close(self, x, expected, k=1, scale=0.0):
        return abs(x - expected) <= self.tol(expected, k, scale)

    # ---- projection --------------------------------------------------------------------------------------
    def contents(self, container):
        """impl Container -> (dict model substance -> float storage amount, list of foreign substance names)."""
        out, foreign = {}, []
        for sub, amt in container.contents.items():
            s = self.inst.model_name(sub)
            if s is None or self.inst.subs[s] != sub or (sub.specific_activity or 0) != (self.inst.subs[s].specific_activity or 0):
                foreign.append(sub.name)
            else:
                out[s] = out.get(s, 0.0) + amt
        return out, foreign

    def well(self, container):
        c, foreign = self.contents(container)
        return {"c": c, "vol": container.volume, "cap": container.max_volume, "foreign": foreign}

    def wells_of(self, obj):
        if isinstance(obj, self.pp.Container):
            return [obj]
        if isinstance(obj, self.pp.Plate):
            return list(obj.wells.flatten())
        raise TypeError(type(obj))

    # ---- expected values in storage units ---------------------------------------------------------------
    def exp_amount(self, s, x):
        return float(x * self.inst.amount_store_scale(s))

    def exp_vol(self, x):
        return float(x * self.inst.vol_store_scale())

    def well_diff(self, container, spec_well, k=1, check_vol=True, slack=None):
        """compare an impl container with a specified well {"c": {s: Fraction}, "vol": Fraction}.
        Returns None when equal within tolerance, else a short description."""
        w = self.well(container)
        if w["foreign"]:
            return f"foreign substances {w['foreign']}"
        for s, x in spec_well["c"].items():
            e = self.exp_amount(s, x)
            got = w["c"].get(s, 0.0)
            if not self.close(got, e, k, float(self.inst.amount_store_scale(s))) and abs(got - e) > (slack or {}).get(s, 0.0):
                return f"amount[{s}] = {got!r}, specified {e!r}"
        for s in w["c"]:
            if s not in spec_well["c"] and abs(w["c"][s]) > self.tol(0, k):
                return f"amount[{s}] = {w['c'][s]!r}, specified absent"
        if check_vol:
            e = self.exp_vol(spec_well["vol"])
            if not self.close(w["vol"], e, k, float(self.inst.vol_store_scale())) and abs(w["vol"] - e) > (slack or {}).get("vol", 0.0):
                return f"volume = {w['vol']!r}, specified {e!r}"
        return None

    def vessel_diff(self, obj, spec_vessel, k=1):
        ws = self.wells_of(obj)
        if len(ws) != len(spec_vessel["w"]):
            return f"{len(ws)} wells, specified {len(spec_vessel['w'])}"
        for i, (c, sw) in enumerate(zip(ws, spec_vessel["w"])):
            d = self.well_diff(c, sw, k)
            if d:
                return f"well {i + 1}: {d}"
            cap = spec_vessel["cap"]
            if cap == INF:
                if c.max_volume != float("inf"):
                    return f"well {i + 1}: capacity {c.max_volume!r}, specified unbounded"
            elif not self.close(c.max_volume, self.exp_vol(cap)):
                return f"well {i + 1}: capacity {c.max_volume!r}, specified {self.exp_vol(cap)!r}"
        return None

    # ---- validity of a returned object (C03a) -----------------------------------------------------------
    def invalid(self, obj, k=1):
        for i, c in enumerate(self.wells_of(obj)):
            t = self.tol(0, k, float(max(self.inst.amount_store_scale("W"), self.inst.vol_store_scale())))
            for sub, amt in c.contents.items():
                if not (amt >= -t) or math.isnan(amt):
                    return f"well {i + 1} holds {amt!r} of {sub.name}"
            if not (c.volume >= -t):
                return f"well {i + 1} has volume {c.volume!r}"
            if c.volume > c.max_volume + self.tol(c.max_volume, k):
                return f"well {i + 1} has volume {c.volume!r} above its capacity {c.max_volume!r}"
        return None

    # ---- fingerprints (C04) -----------------------------------------------------------------------------
    def fp_sub(self, s):
        return (s.name, s._type, s.mol_weight, s.density, s.specific_activity, s.concentration)

    def fp_container(self, c):
        return ("C", c.name, c.max_volume, c.volume,
                tuple(sorted(((self.fp_sub(s), a) for s, a in c.contents.items()), key=repr)),
                getattr(c, "instructions", None), repr(sorted(getattr(c, "experimental_conditions", {}).items())),
                tuple(sorted(s.name for s in c.get_substances())))      # what the (cached) observer reports is part of the value

    def fp_plate(self, p):
        return ("P", p.name, p.make, p.n_rows, p.n_columns, tuple(p.row_names), tuple(p.column_names),
                p.max_volume_per_well, p.wells.shape, tuple(self.fp_container(w) for w in p.wells.flatten()))

    def fp(self, obj):
        pp = self.pp
        if isinstance(obj, pp.Container):
            return self.fp_container(obj)
        if isinstance(obj, pp.Plate):
            return self.fp_plate(obj)
        if isinstance(obj, pp.PlateSlicer):
            return ("S", id(obj.plate), self.fp_plate(obj.plate), repr(obj.slices), repr(obj.item))
        if isinstance(obj, pp.Substance):
            return self.fp_sub(obj)
        if isinstance(obj, (list, tuple)):
            return tuple(self.fp(o) for o in obj)
        return ("V", repr(obj))
