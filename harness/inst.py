"""Numeric instantiation: model units -> real substances, strings and storage values, and back (DESIGN 4).

v  = uL per model volume unit, a = umol per model amount unit (non-enzymes).  Everything else follows from the
substance table of Chem.tla and the configured default densities:
  one model mass unit            = v * rho_solid mg
  mol_weight(s)                  = MassPer(s) * 1000 * v * rho_solid / a      g/mol
  density(s)                     = rho_solid * MassPer(s) / VolPer(s)         g/mL
  one enzyme amount unit         = VolPer(E) * v * 1e-3 * rho_enz             U
  specific_activity              = VolPer(E) * rho_enz / (MassPer(E) * rho_solid)   U/g
"""
import os
from fractions import Fraction as F
import zlib

from model import KIND, VOLPER, MASSPER, is_enzyme

PREFIX = {"n": F(1, 10**9), "u": F(1, 10**6), "m": F(1, 10**3), "c": F(1, 100), "d": F(1, 10), "": F(1),
          "da": F(10), "k": F(10**3), "M": F(10**6)}


def frac(x):
    return x if isinstance(x, F) else F(str(x))


def fmt(x):
    """Shortest decimal string that float() reads back as the nearest double of the exact value x
    (never scientific notation with 'e' problems: float() accepts those too)."""
    f = float(x)
    if f == int(f) and abs(f) < 1e15:
        return str(int(f))
    return repr(f)


def is_short_decimal(x, digits=6):
    """x (Fraction) has at most `digits` decimals exactly."""
    return (x * 10**digits).denominator == 1


class Subs(dict):
    """Substances are values: every other use of a model substance hands the library an EQUAL BUT DISTINCT Substance
    object (a deep copy - what a user gets who reads a substance back from a container's contents, or constructs the same
    substance twice).  VERIF_NO_TWINS=1 switches this off."""

    def __init__(self, *a, **kw):
        super().__init__(*a, **kw)
        self.twins, self.n = {}, 0

    def __getitem__(self, k):
        o = super().__getitem__(k)
        self.n += 1
        if self.n % 2 or os.environ.get("VERIF_NO_TWINS"):
            return o
        if k not in self.twins:
            import copy
            self.twins[k] = copy.deepcopy(o)
        return self.twins[k]


class Inst:
    def __init__(self, pp, v, a, name=None, spell_seed=0):
        """pp: the imported pyplate.pyplate module (for config and the factories)."""
        self.pp = pp
        cfg = pp.config
        self.v = frac(v)
        self.a = frac(a)
        self.rho_solid = frac(cfg.default_solid_density)
        self.rho_enz = frac(cfg.default_enzyme_density)
        self.m = self.v * self.rho_solid                                   # mg per model mass unit
        self.aE = VOLPER["E"] * self.v * self.rho_enz / 1000               # U per enzyme amount unit
        self.name = name or f"v={fmt(self.v)},a={fmt(self.a)}"
        self.spell_seed = spell_seed
        self.precision = cfg.internal_precision
        self.vol_store_mult = PREFIX[cfg.volume_storage_unit[:-1]]         # L per storage unit
        self.mol_store_mult = PREFIX[cfg.moles_storage_unit[:-3]]          # mol per storage unit
        self.subs = Subs()
        for s in KIND:
            self.subs[s] = self._make(s)
        self.by_obj = {id(o): s for s, o in self.subs.items()}

    # ---- substances -------------------------------------------------------------------------------------
    def mol_weight(self, s):
        return MASSPER[s] * 1000 * self.m / self.a

    def density(self, s):
        return self.rho_solid * MASSPER[s] / VOLPER[s]

    def specific_activity(self, s="E"):
        return VOLPER[s] * self.rho_enz / (MASSPER[s] * self.rho_solid)

    # VERIF_COLLIDE=<model substance>:<name>: that substance carries the NAME of a container of the instance (a bottle of
    # water called 'u' and the substance water called 'u'): names of substances and of containers are different namespaces
    COLLIDE = dict(x.split(":") for x in os.environ.get("VERIF_COLLIDE", "").split(",") if ":" in x)

    def _make(self, s):
        S = self.pp.Substance
        if s in self.COLLIDE and KIND[s] == "liquid":
            return S.liquid(self.COLLIDE[s], float(self.mol_weight(s)), float(self.density(s)))
        if KIND[s] == "liquid":
            return S.liquid("sub" + s, float(self.mol_weight(s)), float(self.density(s)))
        if KIND[s] == "solid":
            return S.solid("sub" + s, float(self.mol_weight(s)))
        # "F" is another lot of the enzyme E: same name, different specific activity (Substance equality ignores it)
        return S.enzyme("subE" if s == "F" else "sub" + s, f"{fmt(self.specific_activity(s))} U/g")

    def model_name(self, substance):
        """impl Substance -> model name (by value, the library copies substances)."""
        n = substance.name
        if n == "subE" and substance.specific_activity is not None and \
                abs(substance.specific_activity - float(self.specific_activity("F"))) < 1e-6 * float(self.specific_activity("F")):
            return "F"
        if n.startswith("sub") and n[3:] in KIND:
            return n[3:]
        for m, nm in self.COLLIDE.items():
            if n == nm:
                return m
        return None

    # ---- scales (real base units per model unit) ---------------------------------------------------------
    def base_scale(self, u):
        """real BASE units (L, g, mol, U) per model unit of measure u."""
        if u == "L":
            return self.v / 10**6
        if u == "g":
            return self.m / 10**3
        if u == "mol":
            return self.a / 10**6
        if u == "U":
            return self.aE
        raise ValueError(u)

    def amount_store_scale(self, s):
        """storage units (config moles unit, or U) per model amount unit of substance s."""
        if is_enzyme(s):
            return self.aE
        return self.a / 10**6 / self.mol_store_mult

    def vol_store_scale(self):
        return self.v / 10**6 / self.vol_store_mult

    # ---- strings ---------------------------------------------------------------------------------------
    SPELL = {"L": ["uL", "mL", "L"], "g": ["mg", "g", "ug"], "mol": ["umol", "mmol", "mol"], "U": ["U"]}

    def pick(self, options, salt):
        h = zlib.crc32(f"{self.spell_seed}|{salt}".encode())
        return options[h % len(options)]

    def quantity(self, q, u, salt="", unit=None):
        """model quantity q (Fraction) of measure u -> 'value unit' string."""
        base = q * self.base_scale(u)
        unit = unit or self.pick(self.SPELL[u], salt)
        pre = unit[:-len(u)]
        return f"{fmt(base / PREFIX[pre])} {unit}"

    def quantity_exact(self, q, u):
        """is the real value of q a short decimal in every spelling used (decimal-exact request)?"""
        base = q * self.base_scale(u)
        return all(is_short_decimal(base / PREFIX[unit[:-len(u)]], 9) for unit in self.SPELL[u]) and \
            is_short_decimal(base / (self.vol_store_mult if u == "L" else self.mol_store_mult if u == "mol" else 1), 6)

    def capacity(self, cap):
        if cap == "inf":
            return "inf L"
        return self.quantity(cap, "L", unit="uL" if self.v < 10**5 else "mL")

    def concentration(self, t, nu, du, salt="", style=None):
        """model concentration t (Fraction, nu per du) -> string; style None picks a spelling deterministically.

        Spellings: 'x NU/DU' with prefixes, 'x NU/k DU' (denominator value), and where they apply
        M, mM (mol/L), m (mol/kg), %w/w, %v/v, %w/v (g/mL)."""
        base = t * self.base_scale(nu) / self.base_scale(du)            # in base units nu/du
        styles = ["plain", "prefixed", "denval"]
        if (nu, du) == ("mol", "L"):
            styles += ["M", "mM"]
        if (nu, du) == ("mol", "g"):
            styles += ["m"]
        if (nu, du) == ("g", "g"):
            styles += ["%w/w"]
        if (nu, du) == ("L", "L"):
            styles += ["%v/v"]
        if (nu, du) == ("g", "L") and self.pp.config.default_weight_volume_units == "g/mL":
            styles += ["%w/v"]
        style = style or self.pick(styles, salt)
        if style == "plain":
            return f"{fmt(base)} {nu}/{du}"
        if style == "prefixed":
            np_, dp_ = ("m", "m") if du != "U" and nu != "U" else ("", "")
            if nu != "U" and du != "U":
                np_, dp_ = self.pick([("m", "m"), ("u", "m"), ("m", ""), ("", "k") if du == "g" else ("u", "u")], salt + "p")
            val = base / PREFIX[np_] * PREFIX[dp_]
            return f"{fmt(val)} {np_}{nu}/{dp_}{du}"
        if style == "denval":
            dp_ = "" if du == "U" else "m"
            val = base * 10 * PREFIX[dp_]
            return f"{fmt(val)} {nu}/10 {dp_}{du}"
        if style == "M":
            return f"{fmt(base)} M"
        if style == "mM":
            return f"{fmt(base * 1000)} mM"
        if style == "m":
            return f"{fmt(base * 1000)} m"                               # mol/kg
        if style in ("%w/w", "%v/v"):
            return f"{fmt(base * 100)} {style}"
        if style == "%w/v":
            return f"{fmt(base / 1000 * 100)} %w/v"                      # g/mL in percent
        raise ValueError(style)

    def conc_base(self, t, nu, du):
        return t * self.base_scale(nu) / self.base_scale(du)

    # ---- admissibility ----------------------------------------------------------------------------------
    def admissible(self, den_bound):
        """every non-zero lattice quantity (>= 1/den_bound) maps to >= 1e-3 storage units (1e7 rounding quanta), so
        the library's own rounding stays below 1e-7 relative, an order under the comparison tolerance (DESIGN 4.2)."""
        q = F(1, den_bound)
        checks = [q * self.vol_store_scale() * min(VOLPER.values())]
        for s in KIND:
            checks.append(q * self.amount_store_scale(s))
        quantum = F(1, 10**self.precision)
        return all(c >= 10**7 * quantum for c in checks)
