"""Slicer leg (C13): TLC enumerates the complete selector grammar on one plate shape (Slicer.tla / SlicerMC.tla),
checks the laws of the denotation and prints every selector with its denotation; the replay evaluates
plate[selector].get() on the implementation and compares names, order and shape.

usage: slicer_worker.py <nr> <nc> <labels: default|custom> <partk> <partn> <out.json>"""
import json
import os
import sys
import time

sys.path.insert(0, os.path.dirname(os.path.abspath(__file__)))
import tlcrun          # noqa: E402

MAXS = 3
CUSTOM_ROWS = ["x", "y", "zed", "w", "v"]
CUSTOM_COLS = ["p", "q1", "r", "s", "t"]
# labels that look like numbers but are not the positions: '1' is the SECOND row, column '0' is the first
NUMERIC_ROWS = ["2", "1", "3", "0", "5"]
NUMERIC_COLS = ["0", "2", "1", "4", "3"]


def pysel(ast):
    k = ast["k"]
    if k == "int":
        return ast["i"]
    if k == "label":
        return ast["l"]
    if k == "none":
        return None
    if k == "str":
        return f"{ast['r']}:{ast['c']}"
    if k == "slice":
        return slice(pysel(ast["lo"]), pysel(ast["hi"]), ast["st"] or None)
    if k == "pair":
        return (pysel(ast["a"]), pysel(ast["b"]))
    if k == "list":
        return [pysel(x) for x in ast["items"]]
    raise ValueError(k)


def pyidx(x):
    if x["k"] == "at":
        return x["i"]
    return slice(None if x["lo"] < 0 else x["lo"], None if x["hi"] < 0 else x["hi"], x["st"] or None)


def form_of(ast):
    k = ast["k"]
    if k == "sub":
        return f"narrowed({ast['a']['k']},{ast['b']['k']})"
    if k == "pair":
        return f"pair({ast['a']['k']},{ast['b']['k']})"
    return k


def main(argv):
    nr, nc, labels, partk, partn, out_path = argv[:6]
    nr, nc, partk, partn = int(nr), int(nc), int(partk), int(partn)
    src = os.environ.get("PYPLATE_SRC")
    if src:
        sys.path.insert(0, src)
    import pyplate.pyplate as pp
    t0 = time.time()
    tag = f"Slicer_{nr}x{nc}_{labels}_{partk}of{partn}" + os.environ.get("VERIF_TAG", "")
    wd = os.path.join(tlcrun.BUILD, "tlc")
    os.makedirs(wd, exist_ok=True)
    mod = "MC_" + tag.replace("-", "_")
    if labels == "default":
        rl, cl = f"DefaultRows({nr})", f"DefaultCols({nc})"
    else:
        rws, cls_ = (NUMERIC_ROWS, NUMERIC_COLS) if labels == "numeric" else (CUSTOM_ROWS, CUSTOM_COLS)
        rl = "<<" + ", ".join(f'"{x}"' for x in rws[:nr]) + ">>"
        cl = "<<" + ", ".join(f'"{x}"' for x in cls_[:nc]) + ">>"
    with open(os.path.join(wd, mod + ".tla"), "w") as fh:
        fh.write(f"---- MODULE {mod} ----\nEXTENDS SlicerMC\nRL == {rl}\nCL == {cl}\n"
                 f"ASSUME PrintT(ToJson([labels |-> [rows |-> RL, cols |-> CL]]))\n====\n")
    cfg = os.path.join(wd, mod + ".cfg")
    with open(cfg, "w") as fh:
        fh.write("SPECIFICATION Spec\nCONSTANTS\n  RowLabels <- RL\n  ColLabels <- CL\n  Foreign = \"ZZ\"\n  MaxStep = 3\n"
                 f"  PartK = {partk}\n  PartN = {partn}\nINVARIANT OnPlate\nINVARIANT SliceIsOrderedSet\nINVARIANT RowMajor\n"
                 "INVARIANT ShapeMatches\nINVARIANT Emit\nCHECK_DEADLOCK FALSE\n")
    info = tlcrun.run_tlc(mod, cfg, workers=1, tag=tag, module_dir=wd, java_opts=[f"-DTLA-Library={tlcrun.SPEC}"])
    it = tlcrun.emitted(info["out"])
    lab = json.loads(next(it))["labels"]
    rows, cols = lab["rows"], lab["cols"]
    if labels == "default":
        plate = pp.Plate("p", "1 mL", rows=nr, columns=nc)
    else:
        plate = pp.Plate("p", "1 mL", rows=list(rows), columns=list(cols))
    viol, count, samples = [], {}, []
    n = accepted = rejected = 0

    def report(clause, key, detail, ev, prop="C13"):
        key = dict(key, clause=clause, op="select")
        fk = json.dumps([prop, key], sort_keys=True)
        c = count.get(fk, 0)
        count[fk] = c + 1
        if c < MAXS:
            viol.append({"property": prop, "clause": clause, "class_key": key, "detail": detail, "event": ev, "path": [ev]})
    # C07 on every labelling and geometry: a transfer into the selection changes exactly the selected wells, by the amount asked
    water = pp.Substance.liquid("water", 18.0153, 1.0)
    stock = pp.Container("stock", initial_contents=[(water, "100 mL")])
    n07 = 0
    done07 = set()
    # well names of the plate itself (default labels beyond 'Z', custom labels)
    for r in range(nr):
        for c in range(nc):
            exp = f"well {rows[r]},{cols[c]}"
            if plate.wells[r, c].name != exp:
                report("well_name", {"labels": labels}, f"well ({r + 1},{c + 1}) is named {plate.wells[r, c].name!r}, specified {exp!r}", {"r": r + 1, "c": c + 1})
    for s_ in it:
        ev = json.loads(s_)
        n += 1
        sel, den = ev["sel"], ev["den"]
        key = {"form": form_of(sel), "labels": labels}
        py = pysel(sel) if sel["k"] != "sub" else (pysel(sel["base"]), (pyidx(sel["a"]), pyidx(sel["b"])))
        try:
            slc = plate[py] if sel["k"] != "sub" else plate[py[0]][py[1]]
            arr = slc.get()
            got = [c.name for c in arr.flatten()]
            shape = list(arr.shape)
            attr_shape, attr_size = list(slc.shape), slc.size        # the selection's own account of its shape and size
            exc = None
        except Exception as e:
            exc = e
        if not den["ok"]:
            rejected += 1
            if exc is None:
                report("invalid_selector_accepted", key, f"plate[{py!r}] selected {got} instead of raising", ev)
            continue
        accepted += 1
        if exc is not None:
            report("valid_selector_rejected", dict(key, exc=type(exc).__name__), f"plate[{py!r}] raised {type(exc).__name__}: {exc}", ev)
            continue
        exp = [f"well {rows[w[0] - 1]},{cols[w[1] - 1]}" for w in den["wells"]]
        if got != exp:
            report("wrong_wells", key, f"plate[{py!r}] selected {got}, specified {exp}", ev)
        elif shape != den["shape"] and len(exp) > 0:
            report("wrong_shape", key, f"plate[{py!r}] has shape {shape}, specified {den['shape']}", ev)
        elif attr_size != len(exp) or (attr_shape != den["shape"] and len(exp) > 0):
            report("shape_attribute", key, f"plate[{py!r}].shape = {attr_shape}, .size = {attr_size}; the selection is {den['shape']} with {len(exp)} wells", ev)
        # (once per spelling form and selected set: the selection itself was compared for every selector above)
        if 0 < len(exp) == len(set(exp)) and nr * nc <= 12 and (json.dumps(key, sort_keys=True), tuple(exp)) not in done07:
            done07.add((json.dumps(key, sort_keys=True), tuple(exp)))
            n07 += 1
            try:
                sl = plate[py] if sel["k"] != "sub" else plate[py[0]][py[1]]
                _, filled = pp.Plate.transfer(stock, sl, "7 uL")
                changed = sorted(w.name for w in filled.wells.flatten() if w.volume != 0)
                wrong = [w.name for w in filled.wells.flatten() if w.name in exp and abs(w.get_volume("uL") - 7) > 1e-6]
                if changed != sorted(exp) or wrong:
                    report("operation_on_other_wells", key, f"transfer(stock, plate[{py!r}], '7 uL') changed {changed} (not 7 uL: {wrong}); addressed {sorted(exp)}", ev, prop="C07")
                elif any(w.volume != 0 for w in plate.wells.flatten()):
                    report("argument_plate_changed", key, f"transfer(stock, plate[{py!r}], '7 uL') changed the plate it was given", ev, prop="C07")
            except Exception as e:
                report("addressed_operation_refused", dict(key, exc=type(e).__name__), f"transfer(stock, plate[{py!r}], '7 uL') raised {type(e).__name__}: {e}", ev, prop="C07")
        if len(samples) < 2 and n % 5003 == 11:
            samples.append({"plate": f"{nr}x{nc} {labels}", "selector": repr(py), "selected": got, "specified": exp})
    os.remove(info["out"])
    for f in (os.path.join(wd, mod + ".tla"), cfg):
        if os.path.exists(f):
            os.remove(f)
    res = {"instance": tag, "tlc": {k: info[k] for k in ("generated", "distinct", "wall", "cmd")},
           "counts": {"executed": n, "accepted": accepted, "rejected": rejected}, "evaluated": {"C13": n, "C07": n07},
           "distinct_states": info["distinct"], "violations": viol,
           "violation_counts": [{"property": json.loads(fk)[0], "class_key": json.loads(fk)[1], "count": c} for fk, c in count.items()],
           "samples": samples, "wall": time.time() - t0}
    with open(out_path, "w") as fh:
        json.dump(res, fh)


if __name__ == "__main__":
    main(sys.argv[1:])
