"""./bin/check <property> --replay <file>: re-executes the behaviour of a replay file against the current /repo.

A replay file names the worker shard (model instance, bounds, shard index, instantiation, configuration, seed) whose
TLC run generated the violating transition, the path of events from the initial state, the class key and the
expected / observed values.  TLC is deterministic, so running that shard again regenerates exactly the same
transitions; they are replayed into the current implementation and the monitor is re-evaluated.  Exit 1 (with a
VIOLATION line) if the same class of violation occurs again, 0 if it does not."""
import json
import os
import subprocess
import sys
import tempfile


def main(prop, path):
    with open(path) as fh:
        rf = json.load(fh)
    v = rf.get("violation") or {}
    rr = v.get("rerun")
    if not rr:
        print(f"replay file {path} carries no shard to re-run")
        return 2
    want = dict(rf["class_key"])
    orig_prop = want.pop("orig_property", None) or prop
    want.pop("config", None)
    out = os.path.join(tempfile.gettempdir(), f"verif_replay_{os.getpid()}.json")
    argv = list(rr["argv"])
    for i, a in enumerate(argv):
        if a.endswith(".json") and "/build/run/" in a:
            argv[i] = out
    env = dict(os.environ, PYTHONHASHSEED="0", PYTHONDONTWRITEBYTECODE="1")
    env.update(rr.get("env") or {})
    scratch = os.path.join(os.path.dirname(os.path.dirname(os.path.abspath(__file__))), "build", "scratch")
    os.makedirs(scratch, exist_ok=True)
    cfgdir = env.get("PYPLATE_CONFIG")
    if cfgdir and not os.path.exists(os.path.join(cfgdir, "pyplate.yaml")):
        sys.path.insert(0, os.path.dirname(os.path.abspath(__file__)))
        import configs
        configs.make(os.path.basename(cfgdir))
    p = subprocess.run(argv, cwd=scratch, env=env, stdout=subprocess.PIPE, stderr=subprocess.STDOUT, text=True)
    if p.returncode != 0 or not os.path.exists(out):
        print("MACHINERY-ERROR replay worker failed:\n" + p.stdout[-2000:])
        return 2
    res = json.load(open(out))
    os.remove(out)
    hits = [x for x in res["violations"] if x["property"] == orig_prop and all(str(x["class_key"].get(k)) == str(val) for k, val in want.items())]
    print(f"replayed {' '.join(os.path.basename(a) for a in argv[1:6])} ...: {len(res['violations'])} violation samples in the shard")
    if hits:
        print(f"VIOLATION property={prop} replay={path}")
        print(f"  reproduced: {hits[0]['detail'][:400]}")
        print(f"  path: {json.dumps(hits[0].get('path'))[:600]}")
        return 1
    print(f"not reproduced on the current tree: class {json.dumps(rf['class_key'], sort_keys=True)}")
    return 0
