"""One shard of a Lab run: TLC emits the transitions of one model instance (shard i of K), the replay executes
them on the PyPlate imported from the current /repo tree (or $PYPLATE_SRC) and evaluates every monitor.

usage: lab_worker.py <instance> <depth> <shard> <nshards> <v> <a> <spell_seed> <out.json> [simulate=num,depth,seed]
Must be started with cwd = an empty scratch directory (pyplate reads ./pyplate.yaml first)."""
import json
import os
import sys
import time

sys.path.insert(0, os.path.dirname(os.path.abspath(__file__)))
import tlcrun          # noqa: E402
import instances       # noqa: E402
import inst as I       # noqa: E402
import lab_replay      # noqa: E402


def main(argv):
    instance, depth, shard, nshards, v, a, spell_seed, out_path = argv[:8]
    depth, shard, nshards, spell_seed = int(depth), int(shard), int(nshards), int(spell_seed)
    sim = None
    overrides = {}
    for extra in argv[8:]:
        if extra.startswith("simulate="):
            sim = extra.split("=", 1)[1].split(",")
        elif extra.startswith("override="):
            k, val = extra.split("=", 1)[1].split(":")
            overrides[k] = val
    src = os.environ.get("PYPLATE_SRC")
    if src:
        sys.path.insert(0, src)
    import pyplate.pyplate as pp
    t0 = time.time()
    tag = f"{instance}_d{depth}_s{shard}of{nshards}" + (f"_sim{sim[2]}" if sim else "") + os.environ.get("VERIF_TAG", "")
    mod, cfg = instances.write_cfg(instance, tag, depth, shard, nshards, overrides=overrides)
    if sim:
        info = tlcrun.run_tlc(mod, cfg, workers=1, simulate=f"num={sim[0]}", depth=int(sim[1]), seed=int(sim[2]), tag=tag)
    else:
        # (at depth >= 3 an intermediate product can leave TLC's 32-bit integers, e.g. a target 5 ppm from the current
        # concentration of a state with large denominators: the level being generated is then truncated, see tlcrun)
        info = tlcrun.run_tlc(mod, cfg, workers=1, tag=tag, tolerate_overflow=depth >= 3)
    t_tlc = time.time() - t0
    it = tlcrun.emitted(info["out"])
    config = json.loads(next(it))["config"]
    inst = I.Inst(pp, v, a, spell_seed=spell_seed)
    if not os.environ.get("VERIF_SKIP_ADMISSIBLE") and not inst.admissible(int(overrides.get("DenBound", instances.INSTANCES[instance]["den_bound"]))):
        raise SystemExit(f"instantiation {inst.name} is not admissible for {instance}")
    rp = lab_replay.LabReplay(pp, inst, config, instance=instance)
    t1 = time.time()
    rp.run(json.loads(s) for s in it)
    res = {
        "instance": instance, "depth": depth, "shard": shard, "nshards": nshards, "instantiation": inst.name,
        "simulate": sim, "config": {"shape": config["shape"], "regions": config["regions"]}, "pyplate": os.path.dirname(pp.__file__),
        "tlc": dict({k: info[k] for k in ("generated", "distinct", "depth", "wall", "cmd")}, truncated=info.get("truncated")),
        "counts": dict(rp.counts, tlc_truncated_by_32bit_overflow=1 if info.get("truncated") else 0), "evaluated": rp.evaluated,
        "by_class": {"|".join(map(str, k)): n for k, n in rp.by_class.items()},
        "distinct_states": len(rp.states),
        "violations": [v.as_dict() for v in rp.viol],
        "violation_counts": [{"property": p, "class_key": json.loads(fk), "count": n} for (p, fk), n in rp.viol_count.items()],
        "samples": rp.samples, "wall_tlc": t_tlc, "wall_replay": time.time() - t1,
    }
    with open(out_path, "w") as fh:
        json.dump(res, fh)
    os.remove(info["out"])


if __name__ == "__main__":
    main(sys.argv[1:])
