"""Python mirror of spec/Chem.tla (exact rationals) and helpers to read TLC's JSON values.

The mirror is deliberately tiny: the substance table and the four measures.  It is cross-validated on every
replayed state against values computed by TLC (the `vol` field of every well)."""
from fractions import Fraction as F

KIND = {"W": "liquid", "D": "liquid", "N": "solid", "M": "solid", "E": "enzyme", "F": "enzyme"}
VOLPER = {"W": F(1), "D": F(2), "N": F(3), "M": F(5), "E": F(1), "F": F(1)}
MASSPER = {"W": F(1), "D": F(4), "N": F(3), "M": F(5), "E": F(1, 10), "F": F(1, 4)}
QUNITS = ("L", "g", "mol", "U")
INF = "inf"


def rat(x):
    """TLC JSON [n, d] -> Fraction ([1, 0] is the unbounded capacity)."""
    if isinstance(x, list) and len(x) == 2 and all(isinstance(t, int) for t in x):
        if x[1] == 0:
            return INF
        return F(x[0], x[1])
    raise ValueError(f"not a rational: {x!r}")


def is_enzyme(s):
    return KIND[s] == "enzyme"


def per_unit(s, u):
    if u == "L":
        return VOLPER[s]
    if u == "g":
        return MASSPER[s]
    if u == "mol":
        return F(0) if is_enzyme(s) else F(1)
    if u == "U":
        return F(1) if is_enzyme(s) else F(0)
    raise ValueError(u)


def measure(c, u):
    """c: dict substance -> number (Fraction or float); total measure in base unit u (model units)."""
    return sum((c[s] * per_unit(s, u) for s in c), F(0))


def conc(c, s, nu, du):
    return c.get(s, 0) * per_unit(s, nu) / measure(c, du)


def contents(j):
    """JSON contents {"W": [n,d], ...} -> dict of Fractions."""
    return {s: rat(v) for s, v in j.items()}


def well(j):
    return {"c": contents(j["c"]), "vol": rat(j["vol"])}


def vessel(j):
    return {"cap": rat(j["cap"]), "w": [well(w) for w in j["w"]]}


def state(j):
    return {n: vessel(v) for n, v in j.items()}


def selected(what, s):
    return what == s or what == KIND[s]


def is_short_decimal_ok(x, digits=6):
    """x (Fraction) is exactly a decimal with at most `digits` places."""
    return (x * 10**digits).denominator == 1
