"""C14: quantity / concentration strings against the denotations computed by TLC from Units.tla, enumerated
malformation kinds, and interchangeability of equivalent spellings at use sites."""
from fractions import Fraction as F

from inst import fmt, PREFIX
from model import rat

NAMES = {"M": "M", "mM": "mM", "uM": "uM", "nM": "nM", "kM": "kM", "MM": "MM", "m": "m", "mm": "mm", "um": "um", "km": "km",
         "pww": "%w/w", "pvv": "%v/v", "pwv": "%w/v"}


def sci(j):
    return rat(j["m"]) * F(10) ** j["e"]


def close(got, exp, rel=1e-12, ab=0.0):
    return abs(got - exp) <= rel * abs(exp) + ab


def render(f):
    k = f["k"]
    if k == "q":
        return f"{fmt(rat(f['v']))} {f['p']}{f['u']}"
    if k == "c":
        dv = rat(f["dv"])
        return f"{fmt(sci(f['x']))} {f['np']}{f['nu']}/" + (f"{fmt(dv)} " if dv != 1 else "") + f"{f['dp']}{f['du']}"
    return f"{fmt(rat(f['v']))} {NAMES[f['name']]}"


def run(pp, inst, forms, R, seed):
    U = pp.Unit
    prec = pp.config.internal_precision
    valid_q, valid_c = [], []
    for f in forms:
        text = render(f)
        den = sci(f["den"])
        k = f["k"]
        if k == "q":
            if f["u"] == "U" and f["p"]:
                continue                      # prefixed activity units: not part of the documented quantity grammar
            R.ran("C14")
            key = {"form": "quantity", "unit": f["u"]}
            try:
                val, unit = U.parse_quantity(text)
            except Exception as e:
                R.report("C14", "valid_quantity_rejected", dict(key, exc=type(e).__name__), f"parse_quantity({text!r}) raised {type(e).__name__}: {e}", f)
                continue
            if unit != f["u"] or not close(val, float(den), 1e-12):
                R.report("C14", "quantity_denotation", key, f"parse_quantity({text!r}) = ({val!r}, {unit!r}), SI says {float(den)!r} {f['u']}", f)
            valid_q.append(text)
        else:
            if k == "c" and ((f["nu"] == "U" and f["np"]) or (f["du"] == "U" and f["dp"])):
                continue
            if k == "n" and f["name"] == "pwv" and pp.config.default_weight_volume_units != "g/mL":
                continue
            R.ran("C14")
            key = {"form": "concentration" if k == "c" else NAMES[f["name"]], "nu": f["nu"], "du": f["du"]}
            try:
                val, nu, du = U.parse_concentration(text)
            except Exception as e:
                R.report("C14", "valid_concentration_rejected", dict(key, exc=type(e).__name__), f"parse_concentration({text!r}) raised {type(e).__name__}: {e}", f)
                continue
            # the library documents rounding of the parsed value to internal_precision decimals in base units
            if (nu, du) != (f["nu"], f["du"]) or not close(val, float(den), 1e-12, 0.51 * 10 ** -prec):
                R.report("C14", "concentration_denotation", key, f"parse_concentration({text!r}) = ({val!r}, {nu!r}, {du!r}), SI says {float(den)!r} {f['nu']}/{f['du']}", f)
            valid_c.append(text)
    # ---- malformed strings: enumerated malformation kinds applied to valid forms; any exception is a rejection ----
    def must_reject(fn, text, kind, form):
        R.ran("C14")
        try:
            r = fn(text)
        except Exception:
            return
        R.report("C14", "malformed_accepted", {"form": form, "malformation": kind}, f"{fn.__name__}({text!r}) returned {r!r}", {"text": text})
    for text in valid_q[::37][:40]:
        v, u = text.split(" ")
        for kind, bad in (("no_space", v + u), ("two_spaces", v + "  " + u), ("trailing_space", text + " "),
                          ("leading_space", " " + text), ("non_numeric", "abc " + u), ("unknown_unit", v + " " + u[:-1] + "X" if u != "U" else v + " X"),
                          ("unknown_prefix", v + " x" + u), ("pico_prefix", v + " p" + u), ("empty", ""),
                          ("no_unit", v), ("number_only_space", v + " "), ("two_numbers", v + " " + v + " " + u)):
            must_reject(U.parse_quantity, bad, kind, "quantity")
        # the base unit in the wrong case ('ml', 'uMOL', 'kG', 'u'): no SI unit, and never another one
        base = next(b for b in ("mol", "L", "g", "U") if u.endswith(b))
        must_reject(U.parse_quantity, v + " " + u[:len(u) - len(base)] + base.swapcase(), "base_unit_case", "quantity")
    for text in ("5 ml", "250 ul", "1 l", "2 dl", "3 Mol", "4 MOL", "1 G", "7 u", "2 ku"):
        must_reject(U.parse_quantity, text, "base_unit_case", "quantity")
    for text in valid_c[::101][:40]:
        if "/" not in text or text.endswith(("%w/w", "%v/v", "%w/v")):
            v, name = text.split(" ", 1)
            for kind, bad in (("non_numeric", "abc " + name), ("bare_percent", v + " %"), ("unknown_name", v + " X"),
                              ("empty", ""), ("no_unit", v)):
                must_reject(U.parse_concentration, bad, kind, "named")
            continue
        num, den = text.split("/")
        v, nunit = num.split(" ")
        for kind, bad in (("missing_numerator_unit", v + " /" + den), ("missing_denominator", num + "/"),
                          ("two_slashes", text + "/L"), ("non_numeric", "abc " + nunit + "/" + den),
                          ("unknown_numerator_unit", v + " X/" + den), ("unknown_denominator_unit", num + "/X"),
                          ("unknown_prefix", v + " x" + nunit + "/" + den), ("pico_prefix", v + " p" + nunit + "/" + den),
                          ("no_slash", num + " " + den), ("non_numeric_denominator_value", num + "/abc " + den.split(" ")[-1])):
            must_reject(U.parse_concentration, bad, kind, "concentration")
        dv = den.split(" ")
        for side, unit in (("numerator", nunit), ("denominator", dv[-1])):
            base = next((b for b in ("mol", "L", "g", "U") if unit.endswith(b)), None)
            if base:
                wrong = unit[:len(unit) - len(base)] + base.swapcase()
                bad = (v + " " + wrong + "/" + den) if side == "numerator" else (num + "/" + " ".join(dv[:-1] + [wrong]))
                must_reject(U.parse_concentration, bad, "base_unit_case_" + side, "concentration")
    # ---- interchangeability at use sites -------------------------------------------------------------------
    W, N, D = inst.subs["W"], inst.subs["N"], inst.subs["D"]
    C = pp.Container

    def same(a, b):
        ks = set(a.contents) | set(b.contents)
        return all(close(a.contents.get(k, 0.0), b.contents.get(k, 0.0), 1e-9, 1e-8) for k in ks) and close(a.volume, b.volume, 1e-9, 1e-8)
    for base, spellings in ((("10 mL", "L"), ["0.01 L", "10000 uL", "1 cL", "0.1 dL"]), (("250 mg", "g"), ["0.25 g", "250000 ug", "25 cg"]),
                            (("3 mmol", "mol"), ["0.003 mol", "3000 umol", "3000000 nmol"])):
        ref_text = base[0]
        ref = C("x", "1 L", [(W, ref_text)])
        src = C("src", "1 L", [(W, "100 mL"), (N, "20 mmol")])
        ref_t = C.transfer(src, C("dst", "1 L"), ref_text)
        ref_f = C("f", "5 L", [(N, "1 mmol")]).fill_to(W, "1 L" if base[1] == "L" else "1 kg" if base[1] == "g" else "40 mol")
        for sp in spellings:
            R.ran("C14", 2)
            try:
                if not same(C("x", "1 L", [(W, sp)]), ref):
                    R.report("C14", "spellings_not_interchangeable", {"site": "Container", "dim": base[1]}, f"Container with {sp!r} differs from {ref_text!r}", {"a": ref_text, "b": sp})
                t = C.transfer(src, C("dst", "1 L"), sp)
                if not (same(t[0], ref_t[0]) and same(t[1], ref_t[1])):
                    R.report("C14", "spellings_not_interchangeable", {"site": "transfer", "dim": base[1]}, f"transfer of {sp!r} differs from {ref_text!r}", {"a": ref_text, "b": sp})
            except Exception as e:
                R.report("C14", "spelling_rejected_at_use_site", {"site": "Container/transfer", "dim": base[1], "exc": type(e).__name__}, f"{sp!r}: {type(e).__name__}: {e}", {"a": ref_text, "b": sp})
    for ref_text, spellings in (("0.5 M", ["0.5 mol/L", "0.5 mmol/mL", "0.005 mmol/10 uL", "500 mM", "500 umol/mL"]),
                                ("2 %w/w", ["0.02 g/g", "20 mg/g", "2 g/100 g", "20 g/kg"]),
                                ("0.1 m", ["0.1 mol/kg", "0.1 mmol/g", "0.0001 mol/g"])):
        try:
            ref = C.create_solution(N, W, concentration=ref_text, total_quantity="10 mL")
            stock = C("stock", initial_contents=[(W, "50 mL"), (N, "100 mmol")])      # unbounded: only the spelling is at issue
            ref_d = stock.dilute(N, ref_text, W)
        except Exception as e:
            R.report("C14", "spelling_rejected_at_use_site", {"site": "create_solution/dilute", "exc": type(e).__name__}, f"{ref_text!r}: {type(e).__name__}: {e}", {"a": ref_text})
            continue
        for sp in spellings:
            R.ran("C14", 2)
            try:
                if not same(C.create_solution(N, W, concentration=sp, total_quantity="10 mL"), ref):
                    R.report("C14", "spellings_not_interchangeable", {"site": "create_solution"}, f"create_solution with {sp!r} differs from {ref_text!r}", {"a": ref_text, "b": sp})
                if not same(stock.dilute(N, sp, W), ref_d):
                    R.report("C14", "spellings_not_interchangeable", {"site": "dilute"}, f"dilute to {sp!r} differs from {ref_text!r}", {"a": ref_text, "b": sp})
            except Exception as e:
                R.report("C14", "spelling_rejected_at_use_site", {"site": "create_solution/dilute", "exc": type(e).__name__}, f"{sp!r}: {type(e).__name__}: {e}", {"a": ref_text, "b": sp})
