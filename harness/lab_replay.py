"""Leg R: transition-exhaustive replay of Lab.tla behaviours into the real PyPlate API, with one monitor per
property.  The stream is TLC's emission: one <<pre-state, event, post-state>> per generated transition.

Branching replay: a dictionary (canonical spec state -> implementation objects) is kept; the objects of a
state are re-used as arguments of every outgoing transition (value semantics; checking it is C04)."""
import copy
import hashlib
import json
import traceback
from fractions import Fraction as F

import model
from model import rat, INF, KIND, VOLPER, MASSPER, measure, per_unit
from proj import Proj

MAX_SAMPLES_PER_CLASS = 3


def canon(j):
    return hashlib.md5(json.dumps(j, sort_keys=True, separators=(",", ":")).encode()).hexdigest()


class Violation:
    def __init__(self, prop, clause, key, detail, event, path):
        self.prop, self.clause, self.key, self.detail, self.event, self.path = prop, clause, key, detail, event, path

    def as_dict(self):
        return {"property": self.prop, "clause": self.clause, "class_key": self.key, "detail": self.detail,
                "event": self.event, "path": self.path, "init": getattr(self, "init", None)}


class Outcome:
    def __init__(self):
        self.ok = False
        self.exc = None          # exception instance
        self.new = {}            # name -> returned object
        self.extra = {}          # e.g. the source-side plate of a same-plate transfer
        self.args = []           # argument objects passed (for C04)
        self.call = ""           # human-readable call


class LabReplay:
    def __init__(self, pp, inst, config, props=None, instance="", max_states=None):
        """config: the CONFIG record printed by TLC at start-up (names, shape, regions)."""
        self.pp, self.inst, self.P = pp, inst, Proj(inst)
        self.names = sorted(config["shape"].keys())
        self.shape = {n: tuple(config["shape"][n]) for n in self.names}
        self.regions = config["regions"]
        self.instance = instance
        self.props = props
        self.states = {}         # key -> dict(objs=..., depth=int, parent=(key, event) or None)
        self.viol = []           # Violation list (bounded per class)
        self.viol_count = {}     # (prop, frozen class key) -> count
        self.counts = {"transitions": 0, "executed": 0, "skipped_unreachable": 0, "matched": 0, "diverged": 0,
                       "states_built": 0, "impl_calls": 0}
        self.by_class = {}       # (op, cls, res) -> executed count
        self.evaluated = {}      # prop -> number of monitor evaluations
        self.samples = []
        self.c10_seen = set()
        self.mirror_checked = 0

    # ---- bookkeeping ------------------------------------------------------------------------------------
    def report(self, prop, clause, key, detail, ev, pre_key):
        key = {k: (v if isinstance(v, (int, str, bool)) or v is None else str(v)) for k, v in key.items()}
        key["clause"] = clause
        fk = (prop, json.dumps(key, sort_keys=True))
        n = self.viol_count.get(fk, 0)
        self.viol_count[fk] = n + 1
        if n < MAX_SAMPLES_PER_CLASS:
            v = Violation(prop, clause, key, detail, ev, self.path_to(pre_key) + [ev])
            v.init = getattr(self, "init_json", None)
            self.viol.append(v)

    def ran(self, prop):
        self.evaluated[prop] = self.evaluated.get(prop, 0) + 1

    def path_to(self, key):
        path = []
        while key is not None:
            st = self.states[key]
            if st["parent"] is None:
                break
            key, ev = st["parent"]
            path.append(ev)
        path.reverse()
        return path

    # ---- building objects -------------------------------------------------------------------------------
    def selector(self, ast):
        k = ast["k"]
        if k == "int":
            return ast["i"]
        if k == "label":
            return ast["l"]
        if k == "none":
            return None
        if k == "str":
            return f"{ast['r']}:{ast['c']}"
        if k == "slice":
            return slice(self.selector(ast["lo"]), self.selector(ast["hi"]), ast["st"] or None)
        if k == "pair":
            return (self.selector(ast["a"]), self.selector(ast["b"]))
        if k == "list":
            return [self.selector(x) for x in ast["items"]]
        raise ValueError(k)

    def build_container(self, name, cap, well):
        entries = [(self.inst.subs[s], self.inst.quantity(x, "U" if model.is_enzyme(s) else "mol", unit="U" if model.is_enzyme(s) else "umol"))
                   for s, x in well["c"].items() if x != 0]
        c = self.pp.Container(name, self.inst.capacity(cap), entries or None)
        return c

    def build_initial(self, spec_state):
        objs = {}
        for n in self.names:
            v = spec_state[n]
            disp = n[:-4] if n.endswith("_dup") else n       # "<x>_dup": a different object carrying the name <x>
            if self.shape[n] == (0, 0):
                objs[n] = self.build_container(disp, v["cap"], v["w"][0])
            else:
                nr, nc = self.shape[n]
                p = self.pp.Plate(disp, self.inst.capacity(v["cap"]), rows=nr, columns=nc)
                for i, w in enumerate(v["w"]):
                    if any(x != 0 for x in w["c"].values()):
                        r, c = divmod(i, nc)
                        p.wells[r, c] = self.build_container(p.wells[r, c].name, v["cap"], w)
                objs[n] = p
            d = self.P.vessel_diff(objs[n], v)
            if d:
                raise RuntimeError(f"harness: initial object {n} does not match the specification: {d}")
        return objs

    # ---- executing one event ----------------------------------------------------------------------------
    def arg(self, objs, n, r):
        # a slice is taken once per plate object and region and then kept, as a user keeps `controls = plate['A', :]`: every
        # operation that leaves a stored state through that region is handed the SAME slice object (it must still mean the same)
        cache = self.__dict__.setdefault("slice_cache", {})
        ck = (id(objs[n]), r)
        if ck in cache and cache[ck][0] is objs[n]:
            sl = cache[ck][1]
        else:
            sl = self.arg0(objs, n, r)
            if isinstance(sl, self.pp.PlateSlicer):
                cache[ck] = (objs[n], sl)
                self.__dict__.setdefault("slice_sel", {})[id(sl)] = (sl, repr(sl.slices), repr(getattr(sl, "item", None)))
        if isinstance(sl, self.pp.PlateSlicer):
            # every other slice is looked at before it is used, as a user inspecting it would (cached views must not matter)
            self.looked = not getattr(self, "looked", False)
            if self.looked:
                sl.shape, sl.size, sl.get()
        return sl

    def arg0(self, objs, n, r):
        if r in ("-", "plate"):
            return objs[n]
        ast = self.regions[r]
        if ast["k"] == "sub":           # a narrowed selection: plate[base][a, b]
            def py(x):
                return x["i"] if x["k"] == "at" else slice(None if x["lo"] < 0 else x["lo"], None if x["hi"] < 0 else x["hi"], x["st"] or None)
            return objs[n][self.selector(ast["base"])][py(ast["a"]), py(ast["b"])]
        return objs[n][self.selector(ast)]

    def what(self, w):
        S = self.pp.Substance
        return {"solid": S.SOLID, "liquid": S.LIQUID, "enzyme": S.ENZYME}.get(w) or self.inst.subs[w]

    def execute(self, objs, ev, salt):
        pp, inst = self.pp, self.inst
        out = Outcome()
        op = ev["op"]
        try:
            if op == "transfer":
                src = self.arg(objs, ev["sn"], ev["sr"])
                dst = self.arg(objs, ev["dn"], ev["dr"])
                q = inst.quantity(rat(ev["q"]), ev["u"], salt)
                out.args = [src, dst]
                out.call = f"transfer({ev['sn']}[{ev['sr']}], {ev['dn']}[{ev['dr']}], {q!r})"
                fn = pp.Container.transfer if isinstance(dst, pp.Container) else pp.Plate.transfer
                self.counts["impl_calls"] += 1
                a, b = fn(src, dst, q)
                out.new = {ev["dn"]: b}
                if ev["sn"] == ev["dn"]:
                    out.extra["src_side"] = a
                else:
                    out.new[ev["sn"]] = a
            elif op == "remove":
                tgt = self.arg(objs, ev["n"], ev["r"])
                out.args = [tgt]
                out.call = f"{ev['n']}[{ev['r']}].remove({ev['what']})"
                self.counts["impl_calls"] += 1
                out.new = {ev["n"]: tgt.remove(self.what(ev["what"]))}
            elif op == "fill_to":
                tgt = self.arg(objs, ev["n"], ev["r"])
                q = inst.quantity(rat(ev["T"]), ev["u"], salt)
                out.args = [tgt, inst.subs[ev["solvent"]]]
                out.call = f"{ev['n']}[{ev['r']}].fill_to({ev['solvent']}, {q!r})"
                self.counts["impl_calls"] += 1
                out.new = {ev["n"]: tgt.fill_to(inst.subs[ev["solvent"]], q)}
            elif op == "dilute":
                tgt = objs[ev["n"]]
                cs = inst.concentration(rat(ev["t"]), ev["nu"], ev["du"], salt)
                out.args = [tgt, inst.subs[ev["solute"]], inst.subs[ev["solvent"]]]
                out.call = f"{ev['n']}.dilute({ev['solute']}, {cs!r}, {ev['solvent']})"
                out.extra["conc_str"] = cs
                self.counts["impl_calls"] += 1
                # every other dilution goes through the branch that names the result (here: with the same name)
                kw = {"name": tgt.name} if inst.pick([0, 1], salt + "name") else {}
                out.new = {ev["n"]: tgt.dilute(inst.subs[ev["solute"]], cs, inst.subs[ev["solvent"]], **kw)}
            elif op == "new":
                entries = [(inst.subs[e[0]], inst.quantity(rat(e[1]), "U" if model.is_enzyme(e[0]) else "mol", salt + str(i)))
                           for i, e in enumerate(ev["entries"])]
                cap = inst.capacity(rat(ev["cap"]))
                out.call = f"Container({ev['n']!r}, {cap!r}, {[(e[0].name, e[1]) for e in entries]})"
                self.counts["impl_calls"] += 1
                out.new = {ev["n"]: pp.Container(ev["n"], cap, entries)}
            elif op == "create_solution":
                sols = [inst.subs[x] for x in ev["solutes"]]
                solvent = objs[ev["solvent"]] if ev["solvIsVessel"] else inst.subs[ev["solvent"]]
                kw = {}
                if ev["given"] in ("cq", "ct"):
                    cs = [inst.concentration(rat(t), nu, du, f"{salt}c{i}") for i, (t, nu, du) in enumerate(zip(ev["conc"], ev["nu"], ev["du"]))]
                    kw["concentration"] = cs[0] if len(cs) == 1 else cs
                if ev["given"] in ("cq", "qt"):
                    qs = [inst.quantity(rat(x), u, f"{salt}q{i}") for i, (x, u) in enumerate(zip(ev["qty"], ev["qu"]))]
                    kw["quantity"] = qs[0] if len(qs) == 1 else qs
                if ev["given"] in ("ct", "qt"):
                    kw["total_quantity"] = inst.quantity(rat(ev["total"]), ev["tu"], salt + "t")
                out.args = [solvent] + sols
                out.extra["kwargs"] = kw
                out.call = f"create_solution({ev['solutes']}, {ev['solvent']}, {ev['n']!r}, {kw})"
                self.counts["impl_calls"] += 1
                r = pp.Container.create_solution(sols[0] if len(sols) == 1 else sols, solvent, ev["n"], **kw)
                if ev["solvIsVessel"]:
                    out.new = {ev["solvent"]: r[0], ev["n"]: r[1]}
                else:
                    out.new = {ev["n"]: r}
            elif op == "create_solution_from":
                src = objs[ev["src"]]
                solvent = objs[ev["solvent"]] if ev["solvIsVessel"] else inst.subs[ev["solvent"]]
                cs = inst.concentration(rat(ev["t"]), ev["nu"], ev["du"], salt + "c")
                q = inst.quantity(rat(ev["total"]), ev["tu"], salt + "t")
                out.args = [src, solvent, inst.subs[ev["solute"]]]
                out.call = f"create_solution_from({ev['src']}, {ev['solute']}, {cs!r}, {ev['solvent']}, {q!r}, {ev['n']!r})"
                out.extra["conc_str"] = cs
                self.counts["impl_calls"] += 1
                r = pp.Container.create_solution_from(src, inst.subs[ev["solute"]], cs, solvent, q, ev["n"])
                if ev["solvIsVessel"]:
                    out.new = {ev["src"]: r[0], ev["solvent"]: r[1], ev["n"]: r[2]}
                else:
                    out.new = {ev["src"]: r[0], ev["n"]: r[1]}
            else:
                raise NotImplementedError(op)
            out.ok = True
        except NotImplementedError:
            raise
        except Exception as e:          # the implementation refused (or crashed): recorded, judged by the monitors
            out.exc = e
            out.tb = traceback.format_exc(limit=4)
        return out

    # ---- the main loop ----------------------------------------------------------------------------------
    def run(self, stream, shard=None, nshards=1):
        """stream yields [pre, event, post] JSON triples in TLC's generation order."""
        for idx, (pre_j, ev, post_j) in enumerate(stream):
            self.counts["transitions"] += 1
            pre_key = canon(pre_j)
            if not self.states:
                self.init_json = pre_j
                try:
                    objs0 = self.build_initial(model.state(pre_j))
                except Exception as e:      # the library cannot even construct the initial containers
                    self.states[pre_key] = {"objs": {}, "depth": 0, "parent": None, "fps": {}}
                    self.ran("C03")
                    self.report("C03", "initial_objects_cannot_be_built", {"op": "new", "exc": type(e).__name__},
                                f"building the instance's initial containers raised {type(e).__name__}: {e}", {"op": "init"}, pre_key)
                    return
                self.states[pre_key] = {"objs": objs0, "depth": 0, "parent": None, "fps": None}
                self.counts["states_built"] += 1
            st = self.states.get(pre_key)
            if st is None:
                self.counts["skipped_unreachable"] += 1
                continue
            post_key = canon(post_j)
            constructs = post_key not in self.states
            if nshards > 1 and not constructs and idx % nshards != shard:
                continue        # leaf transitions are divided among the shards; constructing ones run everywhere
            self.step(st, pre_key, pre_j, ev, post_j, post_key, idx)
        self.final_recheck()

    def eps_of(self, ev, spec_pre=None):
        """relative uncertainty an operation driven by a stated concentration introduces: the library rounds the parsed
        concentration to its quantum in base units (quantum / concentration); what a dilution ADDS is the difference
        num / c - den, so its relative uncertainty is that times (den + added) / added; capped at 1e-3"""
        cs, amp = [], 4.0
        try:
            if ev["op"] in ("dilute", "create_solution_from") and "t" in ev:
                cs.append(self.inst.conc_base(rat(ev["t"]), ev["nu"], ev["du"]))
                if ev["op"] == "dilute" and spec_pre is not None and rat(ev.get("y", [0, 1])) > 0:
                    den = measure(spec_pre[ev["n"]]["w"][0]["c"], ev["du"])
                    add = rat(ev["y"]) * per_unit(ev["solvent"], ev["du"])
                    amp = max(amp, float((den + add) / add)) if add > 0 else amp
            elif ev["op"] == "create_solution" and "c" in ev.get("given", ""):
                cs += [self.inst.conc_base(rat(t), nu, du) for t, nu, du in zip(ev["conc"], ev["nu"], ev["du"])]
        except Exception:
            return 0.0
        return min(1e-3, amp * max([self.P.quantum / abs(float(c)) for c in cs if c != 0] or [0.0]))

    def step(self, st, pre_key, pre_j, ev, post_j, post_key, idx):
        objs = st["objs"]
        k = st["depth"] + 1
        spec_pre, spec_post = model.state(pre_j), model.state(post_j)
        if st["fps"] is None:
            st["fps"] = {n: self.P.fp(o) for n, o in objs.items()}
        out = self.execute(objs, ev, salt=f"{idx}")
        arg_fps_before = None
        self.counts["executed"] += 1
        ck = (ev["op"], ev.get("cls"), ev["res"])
        self.by_class[ck] = self.by_class.get(ck, 0) + 1
        ctx = dict(objs=objs, ev=ev, out=out, spec_pre=spec_pre, spec_post=spec_post, k=k, pre_key=pre_key, st=st)
        eps = max(st.get("eps", 0.0), self.eps_of(ev, spec_pre))
        self.P.extra_rel = 2 * eps
        self.pre_eps = st.get("eps", 0.0)
        for mon in (self.mon_c04, self.mon_c03, self.mon_c01, self.mon_c02, self.mon_c07, self.mon_c10,
                    self.mon_c11, self.mon_c17, self.mon_c19, self.mon_c05, self.mon_c12):
            try:
                mon(ctx)
            except Exception as e:
                # the objects the implementation returned (or left behind) cannot even be observed: that is a failure of
                # the property the monitor stands for, not of the machinery (it does not happen on a conforming tree)
                prop = "C" + mon.__name__[-2:]
                self.report(prop, "objects_cannot_be_observed", {"op": ev["op"], "exc": type(e).__name__},
                            f"{out.call}: observing the result raised {type(e).__name__}: {e}", ev, pre_key)
        # does the implementation follow the specification on this transition?
        matched = self.conforms(ctx)
        self.P.extra_rel = 0.0
        if matched:
            self.counts["matched"] += 1
            if post_key not in self.states:
                new_objs = dict(objs)
                new_objs.update(out.new)
                self.states[post_key] = {"objs": new_objs, "depth": k, "parent": (pre_key, ev), "fps": None,
                                         # amounts derived from a stated concentration carry the library's rounding of it
                                         "inexact": st.get("inexact", False) or ev["op"] in ("dilute", "create_solution", "create_solution_from"),
                                         # a take-everything transfer leaves quantum / available of what was there (see mon_c02):
                                         # the emptied well holds a float residue, not nothing
                                         "eps": eps,
                                         "residue": st.get("residue", False) or (ev["op"] == "transfer" and ev.get("cls") == "boundary" and ev["res"] == "ok")}
                self.counts["states_built"] += 1
        else:
            self.counts["diverged"] += 1
        if len(self.samples) < 5 and matched and ev["res"] == "ok" and self.counts["executed"] % 97 == 1:
            self.samples.append({"event": ev, "call": out.call, "instantiation": self.inst.name,
                                 "pre": pre_j, "post": post_j})

    def conforms(self, ctx):
        ev, out = ctx["ev"], ctx["out"]
        if (ev["res"] == "ok") != out.ok:
            return False
        if not out.ok:
            return True
        objs = dict(ctx["objs"])
        objs.update(out.new)
        for n in self.names:
            if self.P.vessel_diff(objs[n], ctx["spec_post"][n], ctx["k"]):
                return False
        return True

    def final_recheck(self):
        """C04: every object ever stored is re-verified at the end (aliasing that a later operation used)."""
        for key, st in self.states.items():
            if st["fps"] is None:
                continue
            for n, o in st["objs"].items():
                self.ran("C04")
                if self.P.fp(o) != st["fps"][n]:
                    ev = st["parent"][1] if st["parent"] else {"op": "init"}
                    self.report("C04", "stored_object_changed_later", {"op": "history", "object": "C" if self.shape[n] == (0, 0) else "P"},
                                f"object {n} of a stored state changed after later operations", ev, st["parent"][0] if st["parent"] else None)

    # ---- class keys --------------------------------------------------------------------------------------
    def kinds_in(self, spec_vessel, idxs=None):
        ks = set()
        for i, w in enumerate(spec_vessel["w"]):
            if idxs is None or (i + 1) in idxs:
                ks |= {KIND[s] for s, x in w["c"].items() if x != 0}
        return "+".join(sorted(ks)) or "empty"

    def key_of(self, ev, spec_pre):
        op = ev["op"]
        key = {"op": op, "cls": ev.get("cls")}
        if op == "transfer":
            key.update(u=ev["u"], form=ev["form"], overlap=ev["overlap"])
        elif op in ("remove",):
            key.update(what=ev["what"] if ev["what"] in ("solid", "liquid", "enzyme") else "substance",
                       target="C" if self.shape[ev["n"]] == (0, 0) else ("P" if ev["r"] == "plate" else "S"))
        elif op == "fill_to":
            key.update(u=ev["u"], solvent_kind=KIND[ev["solvent"]],
                       target="C" if self.shape[ev["n"]] == (0, 0) else ("P" if ev["r"] == "plate" else "S"))
        elif op == "dilute":
            key.update(nu=ev["nu"], du=ev["du"], ncomp=min(ev["ncomp"], 3), solvent_present=ev["solventPresent"],
                       solute_kind=KIND[ev["solute"]], solvent_kind=KIND[ev["solvent"]])
        elif op == "create_solution":
            key.update(given=ev["given"], nsolutes=len(ev["solutes"]), solvent=("container_" + ev["solvent"]) if ev["solvIsVessel"] else "pure",
                       solute_kinds="+".join(KIND[x] for x in ev["solutes"]),
                       units="|".join((f"{a}/{b}" for a, b in zip(ev["nu"], ev["du"])) if ev["given"] != "qt" else ev["qu"]),
                       tu=ev["tu"] if ev["given"] != "cq" else "-", qu="|".join(ev["qu"]) if ev["given"] != "ct" else "-")
        elif op == "create_solution_from":
            key.update(nu=ev["nu"], du=ev["du"], tu=ev["tu"], solvent="container" if ev["solvIsVessel"] else "pure",
                       ncomp=ev["ncomp"], stock=ev["src"], solute_kind=KIND[ev["solute"]])
        return key

    # ---- monitors ----------------------------------------------------------------------------------------
    def mon_c04(self, ctx):
        """arguments and every object of the pre-state are unchanged by the call, also when it raises."""
        st, objs, ev, out = ctx["st"], ctx["objs"], ctx["ev"], ctx["out"]
        self.ran("C04")
        key = self.key_of(ev, ctx["spec_pre"])
        key["outcome"] = "ok" if out.ok else "raise"
        for n, o in objs.items():
            if self.P.fp(o) != st["fps"][n]:
                self.report("C04", "argument_modified", key, f"{out.call}: object {n} changed", ev, ctx["pre_key"])
                st["fps"][n] = self.P.fp(o)      # report once, do not cascade
        for a in out.args:
            if isinstance(a, self.pp.PlateSlicer):
                if not any(a.plate is o for o in objs.values()):
                    self.report("C04", "slice_repointed", key,
                                f"{out.call}: the slice passed in now refers to another plate object", ev, ctx["pre_key"])
                was = self.__dict__.get("slice_sel", {}).get(id(a))
                if was is not None and was[0] is a and (repr(a.slices), repr(getattr(a, "item", None))) != was[1:]:
                    self.report("C04", "slice_selection_changed", key,
                                f"{out.call}: the slice passed in selected {was[1]} and now selects {a.slices!r}", ev, ctx["pre_key"])
                    self.slice_sel[id(a)] = (a, repr(a.slices), repr(getattr(a, "item", None)))     # report once
        for n, o in out.new.items():
            if o is objs.get(n) and ev["res"] == "ok" and ctx["spec_post"][n] != ctx["spec_pre"][n]:
                self.report("C04", "returned_argument", key, f"{out.call}: returned the argument object itself", ev, ctx["pre_key"])

    def mon_c03(self, ctx):
        ev, out, k = ctx["ev"], ctx["out"], ctx["k"]
        self.ran("C03")
        key = self.key_of(ev, ctx["spec_pre"])
        # (a) validity of everything returned
        if out.ok:
            for n, o in list(out.new.items()) + [("src_side", o) for o in [out.extra.get("src_side")] if o is not None]:
                bad = self.P.invalid(o, k)
                if bad:
                    self.report("C03", "invalid_object_returned", key, f"{out.call}: {n}: {bad}", ev, ctx["pre_key"])
                    break
        # (b) verdict, (c) refusal is a ValueError
        cls = ev.get("cls")
        overlapping = ev.get("overlap") in ("overlap", "identical", "self", "duplicate")
        if self.near_not_asserted(ev):
            return
        if ev["res"] != "ok":
            if cls == "shape_mismatch":
                return          # owned by C07 (any exception is a rejection)
            if cls in ("no_solute", "unreachable") and ctx["st"].get("residue"):
                return          # "the solute is absent" is not a fact about a well that was emptied by a ratio (float residue)
            if overlapping and cls != "negative":
                return
            if out.ok:
                self.report("C03", "infeasible_accepted", key, f"{out.call}: infeasible ({cls}) but accepted", ev, ctx["pre_key"])
            elif not isinstance(out.exc, ValueError):
                key2 = dict(key, exc=type(out.exc).__name__)
                self.report("C03", "refusal_not_ValueError", key2, f"{out.call}: raised {type(out.exc).__name__}: {out.exc}", ev, ctx["pre_key"])
        else:
            if overlapping or cls == "degenerate":
                return
            if cls == "boundary" and not self.boundary_asserted(ctx):
                return
            if ev["op"] == "create_solution" and not self.solution_acceptance_asserted(ev):
                return
            if not out.ok:
                key2 = dict(key, exc=type(out.exc).__name__)
                self.report("C03", "feasible_refused", key2, f"{out.call}: feasible ({cls}) but raised {type(out.exc).__name__}: {out.exc}", ev, ctx["pre_key"])

    def boundary_asserted(self, ctx):
        """boundary verdicts are asserted only for decimal-exact requests on decimal-exact states (DESIGN 4.3),
        and only where the decision involves nothing beyond adding / subtracting the user's numbers."""
        ev, inst = ctx["ev"], self.inst
        op = ev["op"]
        if op == "dilute" or ctx["st"].get("inexact", False):
            return False
        vals = []
        if op == "transfer":
            if ev["u"] != "L":
                return False    # mass / mole / activity totals are sums of converted floats: equality not asserted
            vals.append((rat(ev["q"]), ev["u"]))
            names = {ev["sn"], ev["dn"]}
        elif op == "fill_to":
            if ev["u"] != "L":
                return False
            vals.append((rat(ev["T"]), ev["u"]))
            names = {ev["n"]}
        elif op == "new":
            names = set()
            for e in ev["entries"]:
                vals.append((rat(e[1]), "U" if model.is_enzyme(e[0]) else "mol"))
                if not model.is_short_decimal_ok(rat(e[1]) * VOLPER[e[0]] * inst.vol_store_scale()):
                    return False
        else:
            return False
        for q, u in vals:
            if not inst.quantity_exact(q, u):
                return False
        # every stored amount and volume involved, before and after, is a short decimal (the numbers the user typed
        # are exactly representable to the library's precision, so rounding cannot excuse a refusal)
        for n in names:
            for st in (ctx["spec_pre"], ctx["spec_post"]):
                for w in st[n]["w"]:
                    for s, x in w["c"].items():
                        am, vo = x * inst.amount_store_scale(s), x * VOLPER[s] * inst.vol_store_scale()
                        if not model.is_short_decimal_ok(am) or not model.is_short_decimal_ok(vo):
                            return False
        return True

    def mon_c01(self, ctx):
        """accepted transfers conserve every substance over source+destination and touch no other well.
        Uses only the implementation's own before/after objects."""
        ev, out, objs = ctx["ev"], ctx["out"], ctx["objs"]
        if ev["op"] != "transfer" or not out.ok:
            return
        self.ran("C01")
        key = self.key_of(ev, ctx["spec_pre"])
        k = ctx["k"]
        sn, dn = ev["sn"], ev["dn"]
        same = sn == dn
        pre_objs = [objs[sn]] if same else [objs[sn], objs[dn]]
        post_sets = [[out.new[dn]], [out.extra["src_side"]]] if same else [[out.new[sn], out.new[dn]]]
        subs = set()
        for o in pre_objs + [x for ps in post_sets for x in ps]:
            for c in self.P.wells_of(o):
                subs |= set(c.contents.keys())
        for post_objs in post_sets:
            for sub in subs:
                before = sum(c.contents.get(sub, 0.0) for o in pre_objs for c in self.P.wells_of(o))
                after = sum(c.contents.get(sub, 0.0) for o in post_objs for c in self.P.wells_of(o))
                nw = sum(len(self.P.wells_of(o)) for o in pre_objs)
                if abs(after - before) > 1e-7 * abs(before) + 100 * self.P.quantum * nw:
                    self.report("C01", "not_conserved", key,
                                f"{out.call}: total {sub.name} before {before!r} after {after!r}", ev, ctx["pre_key"])
                    return
        # locality: wells in neither region are identical
        touched = {sn: set(), dn: set()}
        for p in ev["pairs"]:
            touched[sn].add(p[0])
            touched[dn].add(p[1])
        for n, post in ([(dn, out.new[dn]), (sn, out.extra["src_side"])] if same else [(sn, out.new[sn]), (dn, out.new[dn])]):
            pre_w, post_w = self.P.wells_of(objs[n]), self.P.wells_of(post)
            if len(pre_w) != len(post_w):
                self.report("C01", "shape_changed", key, f"{out.call}: {n} changed its number of wells", ev, ctx["pre_key"])
                return
            for i, (a, b) in enumerate(zip(pre_w, post_w)):
                if (i + 1) not in touched[n] and (a.contents != b.contents or a.volume != b.volume):
                    self.report("C01", "untouched_well_changed", key,
                                f"{out.call}: well {i + 1} of {n} is neither source nor destination but changed", ev, ctx["pre_key"])
                    return

    def mon_c02(self, ctx):
        """accepted, non-overlapping transfers: every touched well equals the specified aliquot arithmetic."""
        ev, out, objs = ctx["ev"], ctx["out"], ctx["objs"]
        if ev["op"] != "transfer" or ev["res"] != "ok" or not out.ok:
            return
        if ev["overlap"] not in ("none", "disjoint") or ev["cls"] == "degenerate":
            return
        self.ran("C02")
        key = self.key_of(ev, ctx["spec_pre"])
        key["src_kinds"] = self.kinds_in(ctx["spec_pre"][ev["sn"]], {p[0] for p in ev["pairs"]})
        sn, dn = ev["sn"], ev["dn"]
        src_post = out.extra["src_side"] if sn == dn else out.new[sn]
        for side, n, post, idxs in (("source", sn, src_post, {p[0] for p in ev["pairs"]}),
                                    ("destination", dn, out.new[dn], {p[1] for p in ev["pairs"]})):
            ws = self.P.wells_of(post)
            for i in sorted(idxs):
                slack = None
                if side == "source":
                    # the fraction moved is requested / available, and what is available is stored rounded to the library's
                    # quantum: the fraction is uncertain by quantum / available, hence what STAYS of each substance by that
                    # times what was there (it matters when everything is taken: 5e-11 of a large amount is not zero)
                    pre = ctx["spec_pre"][n]["w"][i - 1]
                    u = ev["u"]
                    su = float({"L": self.inst.vol_store_scale(), "mol": self.inst.amount_store_scale("W"),
                                "U": self.inst.amount_store_scale("E"), "g": self.inst.base_scale("g")}[u])
                    avail = float(measure(pre["c"], u)) * su
                    if avail > 0:
                        f = 4 * self.P.quantum / avail + getattr(self.P, "extra_rel", 0.0)
                        slack = {s_: f * self.P.exp_amount(s_, x) for s_, x in pre["c"].items()}
                        slack["vol"] = f * self.P.exp_vol(pre["vol"])
                d = self.P.well_diff(ws[i - 1], ctx["spec_post"][n]["w"][i - 1], ctx["k"], slack=slack)
                if d:
                    self.report("C02", "wrong_aliquot", dict(key, side=side), f"{out.call}: {n} well {i}: {d}", ev, ctx["pre_key"])
                    return

    # ---- helpers for the differential monitors ------------------------------------------------------------
    def same_container(self, a, b, rel=1e-9):
        """two impl containers hold the same contents and volume (tiny float slack for summation order)."""
        keys = set(a.contents) | set(b.contents)
        for s_ in keys:
            x, y = a.contents.get(s_, 0.0), b.contents.get(s_, 0.0)
            if abs(x - y) > rel * max(abs(x), abs(y)) + 10 * self.P.quantum:
                return f"{s_.name}: {x!r} vs {y!r}"
        if abs(a.volume - b.volume) > rel * max(abs(a.volume), abs(b.volume)) + 10 * self.P.quantum:
            return f"volume: {a.volume!r} vs {b.volume!r}"
        return None

    def target_kind(self, n, r):
        return "C" if self.shape[n] == (0, 0) else ("P" if r == "plate" else "S")

    def mon_c07(self, ctx):
        """plate operations act well-by-well on exactly the addressed wells (differential against the
        implementation's own Container operations), supported pairings are accepted, others rejected."""
        ev, out, objs = ctx["ev"], ctx["out"], ctx["objs"]
        op = ev["op"]
        if op == "transfer":
            if self.shape[ev["sn"]] == (0, 0) and self.shape[ev["dn"]] == (0, 0):
                return
        elif op in ("remove", "fill_to"):
            if self.shape[ev["n"]] == (0, 0):
                return
        else:
            return
        self.ran("C07")
        key = self.key_of(ev, ctx["spec_pre"])
        pp = self.pp
        if op == "transfer":
            if ev["cls"] == "shape_mismatch":
                if out.ok:
                    self.report("C07", "mismatched_shapes_accepted", key, f"{out.call}: shapes do not pair but the call was accepted", ev, ctx["pre_key"])
                return
            if ev["overlap"] in ("overlap", "identical", "self", "duplicate"):
                return
            if not out.ok:
                if not isinstance(out.exc, ValueError):
                    self.report("C07", "supported_pairing_crashes", dict(key, exc=type(out.exc).__name__),
                                f"{out.call}: raised {type(out.exc).__name__}: {out.exc}", ev, ctx["pre_key"])
                elif ev["res"] == "ok" and ev["cls"] == "interior":
                    self.report("C07", "supported_pairing_refused", dict(key, exc="ValueError"),
                                f"{out.call}: a supported pairing of addressed wells with a feasible quantity raised ValueError: {out.exc}", ev, ctx["pre_key"])
                return
            if ev["res"] != "ok":
                return
            sn, dn = ev["sn"], ev["dn"]
            q = out.call[out.call.rindex("'", 0, len(out.call) - 2) + 1:-2]
            cur = {}
            def get(n, i):
                if (n, i) not in cur:
                    cur[(n, i)] = copy.deepcopy(self.P.wells_of(objs[n])[i - 1])
                return cur[(n, i)]
            try:
                for p in ev["pairs"]:
                    a, b = pp.Container.transfer(get(sn, p[0]), get(dn, p[1]), q)
                    cur[(sn, p[0])], cur[(dn, p[1])] = a, b
            except Exception as e:
                self.report("C07", "plate_accepts_what_container_refuses", key,
                            f"{out.call}: accepted on the plate, but the same transfer between stand-alone containers raised {type(e).__name__}: {e}", ev, ctx["pre_key"])
                return
            src_post = out.extra["src_side"] if sn == dn else out.new[sn]
            posts = {sn: src_post, dn: out.new[dn]}
            for (n, i), c in cur.items():
                for post in ([out.new[dn], src_post] if sn == dn else [posts[n]]):
                    d = self.same_container(self.P.wells_of(post)[i - 1], c)
                    if d:
                        self.report("C07", "well_differs_from_container_operation", key,
                                    f"{out.call}: {n} well {i}: {d}", ev, ctx["pre_key"])
                        return
            for n, post in posts.items():
                pre_w, post_w = self.P.wells_of(objs[n]), self.P.wells_of(post)
                for i, (a, b) in enumerate(zip(pre_w, post_w)):
                    if (n, i + 1) not in cur and (a.contents != b.contents or a.volume != b.volume):
                        self.report("C07", "unaddressed_well_changed", key, f"{out.call}: {n} well {i + 1} changed", ev, ctx["pre_key"])
                        return
            return
        # remove / fill_to on a plate or slice
        if not out.ok:
            if ev["res"] == "ok" and (not isinstance(out.exc, ValueError) or ev["cls"] == "interior"):
                self.report("C07", "plate_operation_crashes" if not isinstance(out.exc, ValueError) else "plate_operation_refused",
                            dict(key, exc=type(out.exc).__name__), f"{out.call}: raised {type(out.exc).__name__}: {out.exc}", ev, ctx["pre_key"])
            return
        n = ev["n"]
        pre_w, post_w = self.P.wells_of(objs[n]), self.P.wells_of(out.new[n])
        addressed = set(ev["wells"])
        for i, (a, b) in enumerate(zip(pre_w, post_w)):
            if (i + 1) in addressed:
                try:
                    if op == "remove":
                        c = copy.deepcopy(a).remove(self.what(ev["what"]))
                    else:
                        c = copy.deepcopy(a).fill_to(out.args[1], out.call[out.call.rindex("'", 0, len(out.call) - 2) + 1:-2])
                except Exception as e:
                    self.report("C07", "plate_accepts_what_container_refuses", key,
                                f"{out.call}: well {i + 1}: the container operation raised {type(e).__name__}: {e}", ev, ctx["pre_key"])
                    return
                d = self.same_container(b, c)
                if d:
                    self.report("C07", "well_differs_from_container_operation", key, f"{out.call}: well {i + 1}: {d}", ev, ctx["pre_key"])
                    return
            elif a.contents != b.contents or a.volume != b.volume:
                self.report("C07", "unaddressed_well_changed", key, f"{out.call}: well {i + 1} changed", ev, ctx["pre_key"])
                return

    def model_contents(self, container):
        """impl container -> dict model substance -> float amount in MODEL units (mirror input)."""
        c, foreign = self.P.contents(container)
        return {s: x / float(self.inst.amount_store_scale(s)) for s, x in c.items()}, foreign

    CONC_UNITS = [("mol", "L", "mol/L", 1.0), ("mol", "L", "M", 1.0), ("mol", "L", "mM", 1e-3), ("mol", "L", "umol/uL", 1.0),
                  ("mol", "g", "mol/g", 1.0), ("mol", "g", "m", 1e-3), ("mol", "mol", "mol/mol", 1.0),
                  ("g", "L", "g/L", 1.0), ("g", "L", "mg/mL", 1.0), ("g", "g", "g/g", 1.0), ("g", "g", "%w/w", 1e-2),
                  ("g", "mol", "g/mol", 1.0), ("L", "L", "L/L", 1.0), ("L", "L", "%v/v", 1e-2), ("L", "g", "mL/g", 1e-3),
                  ("L", "mol", "L/mol", 1.0), ("U", "L", "U/L", 1.0), ("U", "L", "U/mL", 1e3), ("U", "g", "U/g", 1.0),
                  ("U", "g", "U/mg", 1e3), ("U", "mol", "U/mol", 1.0), ("g", "U", "g/U", 1.0), ("U", "U", "U/U", 1.0)]

    def mon_c10(self, ctx):
        """observers of every returned object agree with the object's own contents by definition."""
        out = ctx["out"]
        if not out.ok:
            return
        for n, o in out.new.items():
            fp = hash(self.P.fp(o)[2:]) if isinstance(o, self.pp.Container) else hash(self.P.fp(o))
            if fp in self.c10_seen:
                continue
            self.c10_seen.add(fp)
            self.ran("C10")
            self.check_observers(ctx, n, o)

    def check_observers(self, ctx, n, o):
        ev, out, inst, pp = ctx["ev"], ctx["out"], self.inst, self.pp
        key = {"op": ev["op"], "object": "C" if isinstance(o, pp.Container) else "P"}
        k = ctx["k"]
        wells = self.P.wells_of(o)
        mcs = []
        for i, c in enumerate(wells):
            mc, foreign = self.model_contents(c)
            mcs.append(mc)
            if foreign:
                continue
            # stored volume against the volume of the contents (additivity)
            vol = sum(x * float(VOLPER[s]) for s, x in mc.items()) * float(inst.vol_store_scale())
            if not self.P.close(c.volume, vol, k + len(mc)):
                self.report("C10", "volume_not_sum_of_contents", key, f"{out.call}: {n} well {i + 1}: volume {c.volume!r}, contents give {vol!r}", ev, ctx["pre_key"])
                return
            for unit, mult in (("uL", 1e-6), ("mL", 1e-3), ("L", 1.0)):
                got = c.get_volume(unit)
                e = c.volume * float(inst.vol_store_mult) / mult
                if abs(got - e) > 1e-9 * abs(e) + 2 * self.P.quantum:
                    self.report("C10", "get_volume", dict(key, unit=unit), f"{out.call}: {n} well {i + 1}: get_volume({unit}) = {got!r}, stored volume is {e!r} {unit}", ev, ctx["pre_key"])
                    return
            if isinstance(o, pp.Container) or i == 0:
                for s in mc:
                    for nu, du, text, mult in self.CONC_UNITS:
                        if (nu == "U") != model.is_enzyme(s) and nu == "U":
                            continue
                        den = sum(x * float(per_unit(t, du)) for t, x in mc.items())
                        if den <= 1e-6 or mc[s] <= 1e-6:
                            continue        # (near-)empty: ratios of rounding residues are not asserted
                        e = mc[s] * float(per_unit(s, nu)) / den * float(inst.base_scale(nu) / inst.base_scale(du)) / mult
                        try:
                            got = c.get_concentration(inst.subs[s], text)
                        except Exception as ex:
                            self.report("C10", "get_concentration_raises", dict(key, units=text, kind=KIND[s], exc=type(ex).__name__),
                                        f"{out.call}: {n}.get_concentration({s}, {text!r}) raised {type(ex).__name__}: {ex}", ev, ctx["pre_key"])
                            return
                        den_base = den * float(inst.base_scale(du))      # the denominator in base units: get_volume() rounds it to a quantum
                        if abs(got - e) > (1e-7 + 2 * self.P.quantum / den_base) * abs(e) + 2 * self.P.quantum:
                            self.report("C10", "get_concentration", dict(key, units=text, kind=KIND[s]),
                                        f"{out.call}: {n}.get_concentration({s}, {text!r}) = {got!r}, contents give {e!r}", ev, ctx["pre_key"])
                            return
            if (isinstance(o, pp.Container) or i == 0) and not self.check_table(ctx, n, i, c, mc, key):
                return
        if isinstance(o, pp.Plate):
            self.check_plate_observers(ctx, n, o, mcs, key)
            self.check_plate_dataframes(ctx, n, o, mcs, key)
        # the set of substances of every single well / container, asked AFTER the plate-level observers
        for i, c in enumerate(wells):
            got = set(c.get_substances())
            keys = set(c.contents.keys())
            present = {s_ for s_, x in c.contents.items() if abs(x) > 1e-9}
            if not (present <= got <= keys):
                self.report("C10", "container_get_substances", key,
                            f"{out.call}: {n} well {i + 1}: get_substances() = {sorted(x.name for x in got)}, contents hold {sorted(x.name for x in keys)}", ev, ctx["pre_key"])
                return

    PREFIX = {"": 1.0, "m": 1e-3, "u": 1e-6, "n": 1e-9, "k": 1e3}
    have_styler = None

    def check_table(self, ctx, n, i, c, mc, key):
        """has_liquid() and the table of a container (dataframe(), also behind repr and the HTML view): every cell, read back
        in its own human-readable unit, states the measure of that substance (and the totals) to the displayed precision."""
        ev, out, inst, pp = ctx["ev"], ctx["out"], self.inst, self.pp
        prec = pp.config.precisions
        liquids = {s for s in mc if KIND[s] == "liquid"}
        got = c.has_liquid()
        if (any(mc[s] > 1e-9 for s in liquids) and not got) or (not liquids and got):
            self.report("C10", "has_liquid", key, f"{out.call}: {n} well {i + 1}: has_liquid() = {got!r}, contents hold liquids {sorted(liquids)}", ev, ctx["pre_key"])
            return False
        try:
            df = c.dataframe()
        except Exception as ex:
            self.report("C10", "table_raises", dict(key, exc=type(ex).__name__), f"{out.call}: {n} well {i + 1}: dataframe() raised {type(ex).__name__}: {ex}", ev, ctx["pre_key"])
            return False
        names = [s_.name for s_ in c.contents]
        rows = {}
        if len(set(names)) == len(names):          # (two lots of one enzyme share a name and hence a row: only the totals are read)
            rows = {s_.name: {inst.model_name(s_): 1.0} for s_ in c.contents}
        rows["Total"] = {s: 1.0 for s in mc}
        for label, members in rows.items():
            if label not in df.index:
                # another layout of the table (the property fixes the values, not the layout): not evaluated
                self.counts["tables_in_another_layout"] = self.counts.get("tables_in_another_layout", 0) + 1
                return True
            for col, u in (("Volume", "L"), ("Mass", "g"), ("Moles", "mol"), ("U", "U")):
                if col not in df.columns:
                    self.counts["tables_in_another_layout"] = self.counts.get("tables_in_another_layout", 0) + 1
                    return True
                cell = df.loc[label, col]
                e = sum(mc.get(s, 0.0) * float(per_unit(s, u)) for s in members if s in mc) * float(inst.base_scale(u))
                if cell == "-":
                    # '-' stands for "does not apply": moles of an enzyme, activity of anything else
                    if label != "Total" and ((u == "mol") == model.is_enzyme(next(iter(members)))) and u in ("mol", "U"):
                        continue
                    if label != "Total" or e > 1e-12:
                        self.report("C10", "table_cell", dict(key, column=col), f"{out.call}: {n} well {i + 1}: table[{label!r}, {col!r}] is '-', contents give {e!r} {u}", ev, ctx["pre_key"])
                        return False
                    continue
                try:
                    val, unit = str(cell).split()
                    mult = self.PREFIX[unit[:len(unit) - len(u)]]
                    if not unit.endswith(u):
                        raise KeyError(unit)
                    val = float(val)
                except (ValueError, KeyError):
                    self.counts["tables_in_another_layout"] = self.counts.get("tables_in_another_layout", 0) + 1
                    return True
                pr = prec.get(unit, prec["default"])
                if abs(val * mult - e) > (0.5 * 10 ** (-pr) * 1.0001) * mult + 1e-6 * abs(e) + 1e-15:
                    self.report("C10", "table_cell", dict(key, column=col), f"{out.call}: {n} well {i + 1}: table[{label!r}, {col!r}] = {cell!r}, contents give {e!r} {u}", ev, ctx["pre_key"])
                    return False
        return True

    def check_plate_dataframes(self, ctx, n, o, mcs, key):
        """Plate.dataframe(unit, substance): the per-well table behind the notebook views (values before display formatting)."""
        ev, out, inst, pp = ctx["ev"], ctx["out"], self.inst, self.pp
        if self.have_styler is None:
            try:
                import jinja2  # noqa: F401  (pandas' Styler, which these views return, needs it; absent from this sandbox's /venv)
                self.have_styler = True
            except ImportError:
                self.have_styler = False
        if not self.have_styler:
            return
        nr, nc = o.wells.shape
        present = sorted({s for mc in mcs for s in mc})
        one = next((s for s in present if not model.is_enzyme(s)), None)
        cases = [("uL", "all", lambda mc: sum(x * float(per_unit(s, "L")) for s, x in mc.items()) * float(inst.base_scale("L")) / 1e-6),
                 ("mg", "all", lambda mc: sum(x * float(per_unit(s, "g")) for s, x in mc.items()) * float(inst.base_scale("g")) / 1e-3),
                 ("U", "all", lambda mc: sum(x * float(per_unit(s, "U")) for s, x in mc.items()) * float(inst.base_scale("U")))]
        if one:
            cases.append(("mmol", one, lambda mc: mc.get(one, 0.0) * float(inst.base_scale("mol")) / 1e-3))
            cases.append(("g", [one, "E"] if "E" in present else [one],
                          lambda mc: sum(mc.get(s, 0.0) * float(per_unit(s, "g")) for s in {one, "E"} & set(present)) * float(inst.base_scale("g"))))
        for unit, what, f in cases:
            arg = what if what == "all" else inst.subs[what] if isinstance(what, str) else [inst.subs[s] for s in what]
            try:
                df = o.dataframe(unit=unit, substance=arg).data
                got = [float(x) for x in df.to_numpy().flatten()]
            except Exception as ex:
                self.report("C10", "plate_dataframe_raises", dict(key, unit=unit, exc=type(ex).__name__),
                            f"{out.call}: {n}.dataframe({unit!r}, {what!r}) raised {type(ex).__name__}: {ex}", ev, ctx["pre_key"])
                return
            exp = [f(mc) for mc in mcs]
            if len(got) != len(exp) or any(abs(g - e) > 1e-6 * abs(e) + 1e-9 for g, e in zip(got, exp)):
                self.report("C10", "plate_dataframe", dict(key, unit=unit, what="all" if what == "all" else "substance" if isinstance(what, str) else "list"),
                            f"{out.call}: {n}.dataframe({unit!r}, {what!r}) = {got}, contents give {exp}", ev, ctx["pre_key"])
                return
            if [str(x) for x in df.index] != [str(x) for x in o.row_names] or [str(x) for x in df.columns] != [str(x) for x in o.column_names]:
                self.report("C10", "plate_dataframe_labels", key, f"{out.call}: {n}.dataframe labels {list(df.index)} x {list(df.columns)}", ev, ctx["pre_key"])
                return

    def check_plate_observers(self, ctx, n, o, mcs, key):
        ev, out, inst, pp = ctx["ev"], ctx["out"], self.inst, self.pp
        prec = pp.config.precisions
        nr, nc = o.wells.shape
        def numpy_flat(a):
            import numpy
            return numpy.asarray(a, dtype=float).reshape(-1)

        def cmp(label, got, exp, unit):
            p = prec.get(unit, prec["default"])
            got = list(got.flatten())
            if len(got) != len(exp):
                self.report("C10", label, dict(key, unit=unit), f"{out.call}: {n}.{label} has {len(got)} entries for {len(exp)} wells", ev, ctx["pre_key"])
                return False
            for i, (g, e) in enumerate(zip(got, exp)):
                if abs(g - e) > 0.5 * 10 ** (-p) * 1.0001 + 1e-6 * abs(e) + 1e-9:
                    self.report("C10", label, dict(key, unit=unit), f"{out.call}: {n}.{label} well {i + 1} = {g!r}, contents give {e!r}", ev, ctx["pre_key"])
                    return False
            return True
        vs = float(inst.vol_store_scale() * inst.vol_store_mult)            # L per model volume unit
        ms = float(inst.a) / 1e6                                            # mol per model amount unit
        for unit, mult in (("uL", 1e-6), ("mL", 1e-3)):
            exp = [sum(x * float(VOLPER[s]) for s, x in mc.items()) * vs / mult for mc in mcs]
            if not cmp("get_volumes()", o.get_volumes(unit=unit), exp, unit):
                return
            tot = o.get_volume(unit)
            p = prec.get(unit, prec["default"])
            if abs(tot - sum(exp)) > len(exp) * (0.5 * 10 ** (-p) * 1.0001 + 1e-9) + 1e-6 * abs(sum(exp)):
                self.report("C10", "get_volume(plate)", dict(key, unit=unit), f"{out.call}: {n}.get_volume({unit}) = {tot!r}, contents give {sum(exp)!r}", ev, ctx["pre_key"])
                return
            for s in ("W", "N", "E"):
                exp = [mc.get(s, 0.0) * float(VOLPER[s]) * vs / mult for mc in mcs]
                if not cmp(f"get_volumes({s})", o.get_volumes(inst.subs[s], unit=unit), exp, unit):
                    return
            exp = [(mc.get("W", 0.0) * float(VOLPER["W"]) + mc.get("D", 0.0) * float(VOLPER["D"])) * vs / mult for mc in mcs]
            if not cmp("get_volumes([W,D])", o.get_volumes([inst.subs["W"], inst.subs["D"]], unit=unit), exp, unit):
                return
        for unit, mult in (("umol", 1e-6), ("mmol", 1e-3), ("mol", 1.0)):
            for s in ("W", "D", "N"):
                exp = [mc.get(s, 0.0) * ms / mult for mc in mcs]
                if not cmp(f"get_moles({s})", o.get_moles(inst.subs[s], unit=unit), exp, unit):
                    return
            exp = [(mc.get("W", 0.0) + mc.get("N", 0.0)) * ms / mult for mc in mcs]
            if not cmp("get_moles([W,N,E])", o.get_moles([inst.subs["W"], inst.subs["N"], inst.subs["E"]], unit=unit), exp, unit):
                return
        present = {s for mc in mcs for s, x in mc.items() if abs(x) > 1e-9}
        keys = {s for mc in mcs for s in mc}
        got = {inst.model_name(s) for s in o.get_substances()}
        if not (present <= got <= keys):
            self.report("C10", "get_substances", key, f"{out.call}: {n}.get_substances() = {sorted(map(str, got))}, contents hold {sorted(present)}", ev, ctx["pre_key"])
            return
        # the same observers on slices of the plate: first row, last column, last well, a list of two wells
        sels = [("row1", 1, [j for j in range(nc)]), ("lastcol", (slice(None), nc), [i * nc + nc - 1 for i in range(nr)]),
                ("lastwell", (nr, nc), [nr * nc - 1]), ("list", [(1, 1), (nr, nc)], [0, nr * nc - 1])]
        for label, sel, idx in sels:
            k2 = dict(key, slice=label)
            try:
                sl = o[sel]
                exp = [sum(x * float(VOLPER[s]) for s, x in mcs[j].items()) * vs / 1e-6 for j in idx]
                if not cmp(f"[{label}].get_volumes()", numpy_flat(sl.get_volumes(unit="uL")), exp, "uL"):
                    return
                exp = [mcs[j].get("W", 0.0) * float(VOLPER["W"]) * vs / 1e-3 for j in idx]
                if not cmp(f"[{label}].get_volumes(W)", numpy_flat(sl.get_volumes(inst.subs["W"], unit="mL")), exp, "mL"):
                    return
                exp = [(mcs[j].get("N", 0.0) + mcs[j].get("D", 0.0)) * ms / 1e-6 for j in idx]
                if not cmp(f"[{label}].get_moles([N,D])", numpy_flat(sl.get_moles([inst.subs["N"], inst.subs["D"]], unit="umol")), exp, "umol"):
                    return
                pres = {s for j in idx for s, x in mcs[j].items() if abs(x) > 1e-9}
                ks = {s for j in idx for s in mcs[j]}
                got = {inst.model_name(s) for s in sl.get_substances()}
                if not (pres <= got <= ks):
                    self.report("C10", "slice_get_substances", k2, f"{out.call}: {n}[{label}].get_substances() = {sorted(map(str, got))}, the wells hold {sorted(pres)}", ev, ctx["pre_key"])
                    return
            except Exception as ex:
                self.report("C10", "slice_observer_raises", dict(k2, exc=type(ex).__name__), f"{out.call}: observers of {n}[{label}] raised {type(ex).__name__}: {ex}", ev, ctx["pre_key"])
                return

    def near_not_asserted(self, ev):
        """targets 5 ppm from the current concentration are judged only where the library's rounding of a stated
        concentration (1e-10 in base units) is far below that distance"""
        return ev["op"] == "dilute" and ev.get("near") and (abs(float(self.inst.conc_base(rat(ev["t"]), ev["nu"], ev["du"]))) < 1e-2
                                                            or getattr(self, "pre_eps", 0.0) > 2.5e-7)   # (the state itself is uncertain by a tenth of the distance)

    def mon_c11(self, ctx):
        """fill_to / dilute reach their target by adding only solvent; the two refusal classes of C11."""
        ev, out, objs, inst = ctx["ev"], ctx["out"], ctx["objs"], self.inst
        op = ev["op"]
        if op not in ("fill_to", "dilute") or self.near_not_asserted(ev):
            return
        self.ran("C11")
        key = self.key_of(ev, ctx["spec_pre"])
        cls = ev["cls"]
        n = ev["n"]
        if ev["res"] != "ok":
            if cls in ("fill_below", "conc_above_current"):
                if out.ok:
                    self.report("C11", "refusal_expected", key, f"{out.call}: {cls} but accepted", ev, ctx["pre_key"])
                elif not isinstance(out.exc, ValueError):
                    self.report("C11", "refusal_not_ValueError", dict(key, exc=type(out.exc).__name__), f"{out.call}: raised {type(out.exc).__name__}: {out.exc}", ev, ctx["pre_key"])
            return
        if not out.ok:
            if cls == "interior":
                self.report("C11", "feasible_refused", dict(key, exc=type(out.exc).__name__),
                            f"{out.call}: feasible but raised {type(out.exc).__name__}: {out.exc}", ev, ctx["pre_key"])
            return
        solvent = inst.subs[ev["solvent"]]
        pre_w, post_w = self.P.wells_of(objs[n]), self.P.wells_of(out.new[n])
        addressed = set(ev["wells"]) if op == "fill_to" else {1}
        for i, (a, b) in enumerate(zip(pre_w, post_w)):
            if (i + 1) not in addressed:
                continue
            for s_ in set(a.contents) | set(b.contents):
                if s_ == solvent:
                    continue
                if a.contents.get(s_, 0.0) != b.contents.get(s_, 0.0):
                    self.report("C11", "other_substance_changed", key, f"{out.call}: well {i + 1}: {s_.name} changed from {a.contents.get(s_, 0.0)!r} to {b.contents.get(s_, 0.0)!r}", ev, ctx["pre_key"])
                    return
            if b.contents.get(solvent, 0.0) < a.contents.get(solvent, 0.0) - self.P.tol(a.contents.get(solvent, 0.0), ctx["k"], float(inst.amount_store_scale(ev["solvent"]))):
                self.report("C11", "solvent_decreased", key, f"{out.call}: well {i + 1}: solvent went from {a.contents.get(solvent, 0.0)!r} to {b.contents.get(solvent, 0.0)!r}", ev, ctx["pre_key"])
                return
            mc, _ = self.model_contents(b)
            if op == "fill_to":
                got = sum(x * float(per_unit(s, ev["u"])) for s, x in mc.items())
                e = float(rat(ev["T"]))
                if abs(got - e) > 1e-6 * abs(e) + 1e-9:
                    self.report("C11", "fill_target_missed", key, f"{out.call}: well {i + 1}: total {got!r} model units, target {e!r}", ev, ctx["pre_key"])
                    return
            else:
                den = sum(x * float(per_unit(s, ev["du"])) for s, x in mc.items())
                got = mc.get(ev["solute"], 0.0) * float(per_unit(ev["solute"], ev["nu"])) / den
                e = float(rat(ev["t"]))
                base = float(inst.conc_base(rat(ev["t"]), ev["nu"], ev["du"]))
                # the stated concentration is rounded by the library to internal_precision decimals in base units (DESIGN 4.2)
                if abs(got - e) > (1e-6 + 2 * self.P.quantum / base) * abs(e):
                    self.report("C11", "dilute_target_missed", key, f"{out.call}: concentration {got!r} model units, target {e!r}", ev, ctx["pre_key"])
                    return
            if b.volume > b.max_volume + self.P.tol(b.max_volume):
                self.report("C11", "capacity_exceeded", key, f"{out.call}: well {i + 1}", ev, ctx["pre_key"])
                return

    def mon_c17(self, ctx):
        """remove deletes exactly the selected substances on exactly the addressed wells."""
        ev, out, objs = ctx["ev"], ctx["out"], ctx["objs"]
        if ev["op"] != "remove":
            return
        self.ran("C17")
        key = self.key_of(ev, ctx["spec_pre"])
        if not out.ok:
            self.report("C17", "remove_raises", dict(key, exc=type(out.exc).__name__), f"{out.call}: raised {type(out.exc).__name__}: {out.exc}", ev, ctx["pre_key"])
            return
        n = ev["n"]
        pre_w, post_w = self.P.wells_of(objs[n]), self.P.wells_of(out.new[n])
        addressed = set(ev["wells"])
        for i, (a, b) in enumerate(zip(pre_w, post_w)):
            if (i + 1) not in addressed:
                if a.contents != b.contents or a.volume != b.volume:
                    self.report("C17", "unaddressed_well_changed", key, f"{out.call}: well {i + 1} changed", ev, ctx["pre_key"])
                    return
                continue
            for s_ in set(a.contents) | set(b.contents):
                m = self.inst.model_name(s_)
                sel = m is not None and model.selected(ev["what"], m)
                if sel and b.contents.get(s_, 0.0) != 0.0:
                    self.report("C17", "selected_substance_left", key, f"{out.call}: well {i + 1} still holds {b.contents[s_]!r} of {s_.name}", ev, ctx["pre_key"])
                    return
                if not sel and a.contents.get(s_, 0.0) != b.contents.get(s_, 0.0):
                    self.report("C17", "unselected_substance_changed", key, f"{out.call}: well {i + 1}: {s_.name} {a.contents.get(s_, 0.0)!r} -> {b.contents.get(s_, 0.0)!r}", ev, ctx["pre_key"])
                    return
            mc, _ = self.model_contents(b)
            vol = sum(x * float(VOLPER[s]) for s, x in mc.items()) * float(self.inst.vol_store_scale())
            if not self.P.close(b.volume, vol, ctx["k"] + len(mc)):
                self.report("C17", "volume_not_reduced", key, f"{out.call}: well {i + 1}: volume {b.volume!r}, remaining contents give {vol!r}", ev, ctx["pre_key"])
                return

    # ---- C19: instruction text states the true amounts ---------------------------------------------------------
    QTY = r"(-?[0-9.]+(?:e[-+]?[0-9]+)?) (n|u|m|)(L|g|mol|U)"

    def std_dim(self, s):
        return {"liquid": "L", "solid": "g", "enzyme": "U"}[KIND[s]]

    def stated(self, text, dim_ok=("L", "g", "mol", "U")):
        """'12.3 mL' -> (value in real base units, dimension, precision slack in base units)"""
        import re
        m = re.fullmatch(self.QTY, text.strip())
        if not m or m.group(3) not in dim_ok:
            return None
        unit = m.group(2) + m.group(3)
        mult = float(self.inst_prefix(m.group(2)))
        prec = self.pp.config.precisions.get(unit, self.pp.config.precisions["default"])
        return float(m.group(1)) * mult, m.group(3), 0.5 * 10 ** (-prec) * mult * 1.0001

    def reworded(self, text, facts, names=()):
        """fallback for an instruction that does not have one of the known sentence forms (the property does not fix the
        wording): True iff the text mentions every name and, for every fact {dim: exact model amount}, contains some
        '<number> <unit>' that states it to its displayed precision."""
        import re
        if not text or any(nm not in text for nm in names):
            return False
        toks = [self.stated(f"{a} {b}") for a, b in re.findall(r"(-?[0-9][0-9.]*(?:e-?[0-9]+)?) ?([A-Za-z]+)", text)]
        toks = [t for t in toks if t is not None]
        for fact in facts:
            if not any(t[1] in fact and self.fact_ok(t, fact[t[1]], t[1]) for t in toks):
                return False
        self.counts["instructions_in_another_wording"] = self.counts.get("instructions_in_another_wording", 0) + 1
        return True

    def inst_prefix(self, p):
        from inst import PREFIX
        return PREFIX[p]

    def fact_ok(self, stated, model_amount, dim, n=1):
        """stated: (value, dim, slack); model_amount: exact amount in model units of dimension dim."""
        e = float(model_amount) * float(self.inst.base_scale(dim))
        return abs(stated[0] - e) <= n * stated[2] + 1e-6 * abs(e) + 1e-12

    def impl_c(self, container):
        """the implementation's own contents of a container, in model units (exactness of the instruction text is
        judged against what the implementation actually did; that it did the right thing is C02/C05/C11/C12)"""
        mc, _ = self.model_contents(container)
        return {s: mc.get(s, 0.0) for s in KIND}

    def mon_c19(self, ctx):
        import re
        ev, out, objs, inst = ctx["ev"], ctx["out"], ctx["objs"], self.inst
        if not out.ok or ev["res"] != "ok":
            return
        op = ev["op"]
        key = {"op": op}
        pre, post = ctx["spec_pre"], ctx["spec_post"]

        def last_lines(c, n=1):
            return (getattr(c, "instructions", "") or "").splitlines()[-n:]
        if op == "transfer":
            if ev["overlap"] not in ("none", "disjoint") or ev["cls"] == "degenerate":
                return
            self.ran("C19")
            dn, sn = ev["dn"], ev["sn"]
            key.update(form=ev["form"], u=ev["u"])
            dst_wells = self.P.wells_of(out.new[dn])
            for j in sorted({p[1] for p in ev["pairs"]}):
                pairs = [p for p in ev["pairs"] if p[1] == j]
                if all(post[dn]["w"][j - 1]["c"][s] == pre[dn]["w"][j - 1]["c"][s] for s in pre[dn]["w"][j - 1]["c"]):
                    continue
                a_, b_ = self.impl_c(self.P.wells_of(objs[dn])[j - 1]), self.impl_c(dst_wells[j - 1])
                gain = {s: b_[s] - a_[s] for s in a_}
                lines = last_lines(dst_wells[j - 1], len(pairs))
                tot = {"L": 0.0, "g": 0.0}
                slack, dim = 0.0, None
                for ln, p in zip(lines, pairs):
                    m = re.fullmatch(r"Transfer (.+?) of (.+) to (.+)", ln)
                    st = self.stated(m.group(1), ("L", "g")) if m else None
                    if st is None:
                        if len(pairs) != 1 or self.reworded(ln, [{"L": measure(gain, "L"), "g": measure(gain, "g")}],
                                                            [self.P.wells_of(objs[sn])[p[0] - 1].name, dst_wells[j - 1].name]):
                            dim = "mixed"       # another wording (several lines: not evaluated): nothing more to compare
                            break
                        self.report("C19", "transfer_instruction_unreadable", key, f"{out.call}: last instruction of the destination is {ln!r}", ev, ctx["pre_key"])
                        return
                    src_c = self.P.wells_of(objs[sn])[p[0] - 1]
                    if src_c.name not in m.group(2) or dst_wells[j - 1].name not in m.group(3):
                        self.report("C19", "transfer_instruction_names", key, f"{out.call}: {ln!r} does not name {src_c.name!r} and {dst_wells[j - 1].name!r}", ev, ctx["pre_key"])
                        return
                    dim = st[1] if dim in (None, st[1]) else "mixed"
                    tot[st[1]] += st[0]
                    slack += st[2]
                if dim == "mixed":
                    continue
                k19 = dict(key, dim=dim, src_kinds=self.kinds_in(pre[sn], {p[0] for p in pairs}))
                if not self.fact_ok((tot[dim], dim, slack), measure(gain, dim), dim):
                    self.report("C19", "transfer_amount_misstated", k19,
                                f"{out.call}: instructions {lines} state {tot[dim]!r} {dim}, actually moved {float(measure(gain, dim) * inst.base_scale(dim))!r} {dim}", ev, ctx["pre_key"])
                    return
        elif op in ("fill_to", "dilute"):
            self.ran("C19")
            n = ev["n"]
            wells = ev["wells"] if op == "fill_to" else [1]
            ys = ev["ys"] if op == "fill_to" else [ev["y"]]
            key.update(target=self.target_kind(n, ev.get("r", "-")))
            for i, y in zip(wells, ys):
                y = rat(y)
                if not (op == "dilute" and y == 0):
                    a_, b_ = self.impl_c(self.P.wells_of(objs[n])[i - 1]), self.impl_c(self.P.wells_of(out.new[n])[i - 1])
                    y = b_[ev["solvent"]] - a_[ev["solvent"]]
                ln = last_lines(self.P.wells_of(out.new[n])[i - 1])[0] if last_lines(self.P.wells_of(out.new[n])[i - 1]) else ""
                if op == "dilute" and y == 0:
                    continue
                m = re.fullmatch(r"(Fill|Dilute) with (.+?) of (.+)\.", ln)
                st = self.stated(m.group(2), ("L",)) if m else None
                if st is None:
                    if self.reworded(ln, [{"L": y * VOLPER[ev["solvent"]]}], [inst.subs[ev["solvent"]].name]):
                        continue
                    self.report("C19", f"{op}_instruction_unreadable", key, f"{out.call}: last instruction is {ln!r}", ev, ctx["pre_key"])
                    return
                if m.group(3) != inst.subs[ev["solvent"]].name:
                    self.report("C19", f"{op}_instruction_names", key, f"{out.call}: {ln!r} does not name the solvent", ev, ctx["pre_key"])
                    return
                if not self.fact_ok(st, y * VOLPER[ev["solvent"]], "L"):
                    self.report("C19", f"{op}_amount_misstated", dict(key, solvent_kind=KIND[ev["solvent"]]),
                                f"{out.call}: {ln!r}, actually added {float(y * VOLPER[ev['solvent']] * inst.base_scale('L'))!r} L", ev, ctx["pre_key"])
                    return
        elif op in ("new", "create_solution"):
            self.ran("C19")
            c = out.new[ev["n"]]
            text = (c.instructions or "").splitlines()[0] if c.instructions else ""
            want = self.impl_c(c)
            portion = None
            if op == "create_solution" and ev["solvIsVessel"]:
                m = re.fullmatch(r"Add (.*) to (.+?) of (.+)\.", text)
                a_, b_ = self.impl_c(objs[ev["solvent"]]), self.impl_c(out.new[ev["solvent"]])
                portion = {s: a_[s] - b_[s] for s in a_}                      # what left the solvent container
                want = {s: want[s] - portion[s] for s in ev["solutes"]}      # what was added besides
            else:
                m = re.fullmatch(r"Add (.*) to a (.*)container\.", text)
            if op == "new" and not ev["entries"]:
                return
            prep_facts = [{self.std_dim(s_): x * per_unit(s_, self.std_dim(s_))} for s_, x in want.items() if x != 0]
            prep_names = [inst.subs[s_].name for s_, x in want.items() if x != 0]
            if not m:
                if self.reworded(text, prep_facts, prep_names):
                    return
                self.report("C19", "preparation_instruction_unreadable", key, f"{out.call}: instruction is {text!r}", ev, ctx["pre_key"])
                return
            items = {}
            for part in m.group(1).split(", "):
                mm = re.fullmatch(r"(.+?) of (.+)", part)
                st = self.stated(mm.group(1)) if mm else None
                if st is None:
                    if self.reworded(text, prep_facts, prep_names):
                        return
                    self.report("C19", "preparation_instruction_unreadable", key, f"{out.call}: cannot read {part!r}", ev, ctx["pre_key"])
                    return
                # a substance named more than once is added more than once by whoever follows the text: the amounts add up
                prev = items.get(mm.group(2))
                items[mm.group(2)] = st if prev is None else ((st[0] + prev[0], st[1], st[2] + prev[2]) if prev[1] == st[1] else (float("nan"), st[1], 0.0))
            for s_, x in want.items():
                if x == 0:
                    continue
                st = items.get(inst.subs[s_].name)
                dim = self.std_dim(s_)
                if st is None or st[1] != dim or not self.fact_ok(st, x * per_unit(s_, dim), dim):
                    self.report("C19", "preparation_amount_misstated", dict(key, kind=KIND[s_]),
                                f"{out.call}: instruction {text!r}; {s_} is actually {float(x * per_unit(s_, dim) * inst.base_scale(dim))!r} {dim}", ev, ctx["pre_key"])
                    return
            if portion is not None:
                st = self.stated(m.group(2), ("L",))
                vol = sum(x * float(VOLPER[s_]) for s_, x in portion.items())
                if st is None or m.group(3) != objs[ev["solvent"]].name or not self.fact_ok(st, vol, "L"):
                    self.report("C19", "solvent_amount_misstated", key, f"{out.call}: instruction {text!r}; the solvent portion is {float(vol * inst.base_scale('L'))!r} L", ev, ctx["pre_key"])
        elif op == "create_solution_from":
            if ev["solvIsVessel"]:
                return
            self.ran("C19")
            c = out.new[ev["n"]]
            text = (c.instructions or "").splitlines()[-1] if c.instructions else ""
            m = re.fullmatch(r"Add (.+?) of (.+) to (.+?) of (.+)\.", text)
            sty = self.stated(m.group(1), ("L",)) if m else None
            stx = self.stated(m.group(3), ("L",)) if m else None
            a_, b_ = self.impl_c(objs[ev["src"]]), self.impl_c(out.new[ev["src"]])
            px = {s_: a_[s_] - b_[s_] for s_ in a_}
            y_added = self.impl_c(c)[ev["solvent"]] - px[ev["solvent"]]
            if sty is None or stx is None:
                if self.reworded(text, [{"L": measure(px, "L")}, {"L": y_added * float(VOLPER[ev["solvent"]])}],
                                 [inst.subs[ev["solvent"]].name, objs[ev["src"]].name]):
                    return
                self.report("C19", "dilution_instruction_unreadable", key, f"{out.call}: instruction is {text!r}", ev, ctx["pre_key"])
                return
            prec = self.pp.config.precisions.get("mL", self.pp.config.precisions["default"])
            slack = 0.5 * 10 ** (-prec) * 1e-3 * 1.0001
            okx = self.fact_ok((stx[0], "L", slack), measure(px, "L"), "L")
            oky = self.fact_ok((sty[0], "L", slack), y_added * float(VOLPER[ev["solvent"]]), "L")
            if not (okx and oky) or m.group(2) != inst.subs[ev["solvent"]].name or m.group(4) != objs[ev["src"]].name:
                self.report("C19", "dilution_amount_misstated", key,
                            f"{out.call}: instruction {text!r}; actually {float(rat(ev['y']) * VOLPER[ev['solvent']] * inst.base_scale('L'))!r} L of solvent and {float(measure(px, 'L') * inst.base_scale('L'))!r} L of stock", ev, ctx["pre_key"])

    # ---- C05 / C12 ---------------------------------------------------------------------------------------------
    def conc_tol(self, t, nu, du):
        """relative tolerance for a stated concentration: the library rounds it to 10 decimals in base units."""
        base = abs(float(self.inst.conc_base(t, nu, du)))
        return 1e-6 + (self.P.quantum / base if base > 0 else 0.0)

    def solution_acceptance_asserted(self, ev):
        """an over-determined request (concentration AND quantity for two or more solutes) is consistent only up to
        the library's rounding of the stated concentrations, which its own 1e-6 residual test may reject; acceptance
        is asserted only where every stated concentration is >= 1e-2 in base units and the amounts are of ordinary
        magnitude (DESIGN 4.2)."""
        if len(ev["solutes"]) < 2 or ev["given"] != "cq":
            return True
        inst = self.inst
        bases = [abs(float(inst.conc_base(rat(t), nu, du))) for t, nu, du in zip(ev["conc"], ev["nu"], ev["du"])]
        qtys = [abs(float(rat(x) * inst.base_scale(u))) for x, u in zip(ev["qty"], ev["qu"])]
        return min(bases) >= 1e-2 and max(qtys) <= 10

    def mon_c05(self, ctx):
        ev, out, objs, inst = ctx["ev"], ctx["out"], ctx["objs"], self.inst
        if ev["op"] != "create_solution":
            return
        self.ran("C05")
        key = self.key_of(ev, ctx["spec_pre"])
        cls = ev["cls"]
        n = len(ev["solutes"])
        bases = [abs(float(inst.conc_base(rat(t), nu, du))) for t, nu, du in zip(ev["conc"], ev["nu"], ev["du"])] if ev["given"] != "qt" else [1.0]
        well_scaled = min(bases) >= 1e-2
        if ev["res"] != "ok":
            if out.ok:
                self.report("C05", "impossible_mixture_accepted", key, f"{out.call}: no such mixture exists ({cls}) but a container was returned", ev, ctx["pre_key"])
            elif not isinstance(out.exc, ValueError):
                self.report("C05", "refusal_not_ValueError", dict(key, exc=type(out.exc).__name__), f"{out.call}: raised {type(out.exc).__name__}: {out.exc}", ev, ctx["pre_key"])
            return
        if not out.ok:
            if cls == "interior" and self.solution_acceptance_asserted(ev):
                self.report("C05", "feasible_refused", dict(key, exc=type(out.exc).__name__), f"{out.call}: a mixture exists but the call raised {type(out.exc).__name__}: {out.exc}", ev, ctx["pre_key"])
            return
        res = out.new[ev["n"]]
        mc, foreign = self.model_contents(res)
        allowed = set(ev["solutes"]) | ({s for s, x in ctx["spec_pre"][ev["solvent"]]["w"][0]["c"].items() if x != 0} if ev["solvIsVessel"] else {ev["solvent"]})
        if foreign or any(abs(x) > 1e-9 and s not in allowed for s, x in mc.items()):
            self.report("C05", "foreign_substance", key, f"{out.call}: result holds {sorted(mc)} {foreign}", ev, ctx["pre_key"])
            return
        for s in allowed:
            if not mc.get(s, 0.0) > 0:
                self.report("C05", "component_not_positive", key, f"{out.call}: amount of {s} is {mc.get(s, 0.0)!r}", ev, ctx["pre_key"])
                return
        # every stated constraint, in its own unit (mirror of Chem.tla on the returned contents)
        def meas(c, u):
            return sum(x * float(per_unit(s, u)) for s, x in c.items())
        if ev["given"] in ("cq", "ct"):
            for i, s in enumerate(ev["solutes"]):
                t = rat(ev["conc"][i])
                got = mc.get(s, 0.0) * float(per_unit(s, ev["nu"][i])) / meas(mc, ev["du"][i])
                if abs(got - float(t)) > self.conc_tol(t, ev["nu"][i], ev["du"][i]) * abs(float(t)) * (10 if n >= 2 else 1):
                    self.report("C05", "concentration_not_met", key, f"{out.call}: concentration of {s} is {got!r} model units, stated {float(t)!r}", ev, ctx["pre_key"])
                    return
        if ev["given"] in ("cq", "qt") and self.solution_acceptance_asserted(ev):
            for i, s in enumerate(ev["solutes"]):
                # the solvent container may itself contribute solute; the stated quantity is what was added
                extra = 0.0
                if ev["solvIsVessel"]:
                    extra = float(ctx["spec_post"][ev["n"]]["w"][0]["c"][s] - rat(ev["xs"][i]))
                got = (mc.get(s, 0.0) - extra) * float(per_unit(s, ev["qu"][i]))
                e = float(rat(ev["qty"][i]))
                if abs(got - e) > 1e-6 * abs(e) * (10 if n >= 2 else 1) + 1e-9:
                    self.report("C05", "solute_quantity_not_met", key, f"{out.call}: quantity of {s} is {got!r} model units, stated {e!r}", ev, ctx["pre_key"])
                    return
        if ev["given"] in ("ct", "qt"):
            got, e = meas(mc, ev["tu"]), float(rat(ev["total"]))
            if abs(got - e) > 1e-6 * abs(e) * (10 if n >= 2 else 1) + 1e-9:
                self.report("C05", "total_not_met", key, f"{out.call}: total is {got!r} model units, stated {e!r}", ev, ctx["pre_key"])
                return
        if well_scaled:
            d = self.P.well_diff(res, ctx["spec_post"][ev["n"]]["w"][0], ctx["k"] + 10)
            if d:
                self.report("C05", "differs_from_unique_solution", key, f"{out.call}: {d}", ev, ctx["pre_key"])
                return
        if ev["solvIsVessel"]:
            pre, resid = objs[ev["solvent"]], out.new[ev["solvent"]]
            added = {inst.subs[s]: 0.0 for s in ev["solutes"]}
            mres, _ = self.model_contents(resid)
            mpre, _ = self.model_contents(pre)
            # nothing lost: residual + solution = solvent container + solutes added; the portion is a uniform aliquot
            fr = None
            for s in mpre:
                if mpre[s] <= 1e-9:
                    continue
                taken = mpre[s] - mres.get(s, 0.0)
                f = taken / mpre[s]
                if fr is None:
                    fr = f
                elif abs(f - fr) > 1e-6:
                    self.report("C05", "solvent_portion_not_aliquot", key, f"{out.call}: fractions taken {fr!r} vs {f!r} ({s})", ev, ctx["pre_key"])
                    return
                if s not in ev["solutes"] and abs(mc.get(s, 0.0) - taken) > 1e-6 * abs(taken) + 1e-9:
                    self.report("C05", "solvent_lost", key, f"{out.call}: {s}: taken {taken!r}, in the solution {mc.get(s, 0.0)!r}", ev, ctx["pre_key"])
                    return

    def aliquot_asserted(self, ctx):
        """'the stock's own concentration' is asserted to be reachable only where the user's numbers are exact: the stock
        is an initial-state object (built from stated amounts, no concentration-driven operation on the path), and the
        stated concentration and total are short decimals in base units in every spelling - far above the library's
        rounding of a parsed concentration.  A refusal then comes from noise in the implementation's own arithmetic
        (its stored amounts are within 1e-16 of what was typed), not from the rounding of anything the user typed."""
        ev, inst = ctx["ev"], self.inst
        if ctx["st"].get("inexact", False) or ctx["k"] > 1:
            return False
        base = inst.conc_base(rat(ev["t"]), ev["nu"], ev["du"])
        return model.is_short_decimal_ok(base, 5) and base >= F(1, 100) and inst.quantity_exact(rat(ev["total"]), ev["tu"])

    def mon_c12(self, ctx):
        ev, out, objs, inst = ctx["ev"], ctx["out"], ctx["objs"], self.inst
        if ev["op"] != "create_solution_from":
            return
        self.ran("C12")
        key = self.key_of(ev, ctx["spec_pre"])
        cls = ev["cls"]
        if ev["res"] != "ok":
            if out.ok:
                self.report("C12", "infeasible_accepted", key, f"{out.call}: {cls} but accepted", ev, ctx["pre_key"])
            elif not isinstance(out.exc, ValueError):
                self.report("C12", "refusal_not_ValueError", dict(key, exc=type(out.exc).__name__), f"{out.call}: raised {type(out.exc).__name__}: {out.exc}", ev, ctx["pre_key"])
            return
        if not out.ok:
            if cls == "interior":
                self.report("C12", "feasible_refused", dict(key, exc=type(out.exc).__name__), f"{out.call}: feasible but raised {type(out.exc).__name__}: {out.exc}", ev, ctx["pre_key"])
            elif ev.get("aliquot") and self.aliquot_asserted(ctx):
                # the stock's own concentration, stated exactly: a concentration the stock can reach (no solvent is needed)
                self.report("C12", "feasible_refused", dict(key, cls="aliquot", exc=type(out.exc).__name__),
                            f"{out.call}: the stock's own concentration (a plain aliquot) but raised {type(out.exc).__name__}: {out.exc}", ev, ctx["pre_key"])
            return
        new = out.new[ev["n"]]
        mc, foreign = self.model_contents(new)
        def meas(c, u):
            return sum(x * float(per_unit(s, u)) for s, x in c.items())
        t, tot = rat(ev["t"]), float(rat(ev["total"]))
        got = meas(mc, ev["tu"])
        if abs(got - tot) > 1e-6 * abs(tot) + 1e-9:
            self.report("C12", "total_not_met", key, f"{out.call}: total {got!r} model units, requested {tot!r}", ev, ctx["pre_key"])
            return
        if cls == "interior" or not IsTiny(float(rat(ev["y"]))):
            gotc = mc.get(ev["solute"], 0.0) * float(per_unit(ev["solute"], ev["nu"])) / meas(mc, ev["du"])
            if abs(gotc - float(t)) > self.conc_tol(t, ev["nu"], ev["du"]) * abs(float(t)) * 3:
                self.report("C12", "concentration_not_met", key, f"{out.call}: concentration {gotc!r} model units, requested {float(t)!r}", ev, ctx["pre_key"])
                return
        # conservation over the implementation's own objects: residuals + new = inputs + added pure solvent
        names = [ev["src"]] + ([ev["solvent"]] if ev["solvIsVessel"] else [])
        subs = set(new.contents)
        for n_ in names:
            subs |= set(objs[n_].contents) | set(out.new[n_].contents)
        for s_ in subs:
            before = sum(objs[n_].contents.get(s_, 0.0) for n_ in names)
            after = sum(out.new[n_].contents.get(s_, 0.0) for n_ in names) + new.contents.get(s_, 0.0)
            added = after - before
            m = inst.model_name(s_)
            if (not ev["solvIsVessel"]) and m == ev["solvent"]:
                if added < -self.P.tol(before, 3):
                    self.report("C12", "solvent_lost", key, f"{out.call}: pure solvent balance {added!r}", ev, ctx["pre_key"])
                    return
            elif abs(added) > 1e-7 * abs(before) + 1000 * self.P.quantum:
                self.report("C12", "not_conserved", key, f"{out.call}: {s_.name}: inputs held {before!r}, outputs hold {after!r}", ev, ctx["pre_key"])
                return
        # the part taken from the stock is a uniform aliquot
        msrc, _ = self.model_contents(objs[ev["src"]])
        mres, _ = self.model_contents(out.new[ev["src"]])
        fr = None
        for s in msrc:
            if msrc[s] <= 1e-9:
                continue
            f = (msrc[s] - mres.get(s, 0.0)) / msrc[s]
            if fr is None:
                fr = f
            elif abs(f - fr) > 1e-6:
                self.report("C12", "stock_portion_not_aliquot", key, f"{out.call}: fractions {fr!r} vs {f!r}", ev, ctx["pre_key"])
                return


def IsTiny(x):
    return abs(x) < 1e-12
