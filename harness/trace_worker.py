"""Leg V (code -> spec): record every Recipe API call made by the repository's own tests and examples under the
recording plugin, then let TLC validate the traces against spec/LifecycleTrace.tla (actions of Lifecycle.tla,
which Recipe.tla refines).  usage: trace_worker.py <out.json>"""
import json
import os
import re
import subprocess
import sys
import time

sys.path.insert(0, os.path.dirname(os.path.abspath(__file__)))
import tlcrun  # noqa: E402

REPO = "/repo"


def main(argv):
    out_path = argv[0]
    src = os.environ.get("PYPLATE_SRC", REPO)
    wd = os.path.join(tlcrun.BUILD, "traces")
    os.makedirs(wd, exist_ok=True)
    tag = os.environ.get("VERIF_TAG", "")
    tfile = os.path.join(wd, f"traces{tag}.json")
    env = dict(os.environ, PYPLATE_VERIF="1", VERIF_TRACE_OUT=tfile, PYTHONPATH=f"{src}:{os.path.dirname(os.path.abspath(__file__))}",
               PYTHONDONTWRITEBYTECODE="1")
    t0 = time.time()
    # what entitles Lifecycle.tla to speak for Recipe.tla: the refinement, re-checked by TLC on every run
    import instances
    mod, cfg = instances.write_recipe_cfg("RecipeLife", f"refines{tag}", 4)
    text = open(cfg).read().replace("SPECIFICATION RSpec", "SPECIFICATION RSpecQuiet") + "PROPERTY Refines\n"
    open(cfg, "w").write(text)
    ref = tlcrun.run_tlc("RecipeRefines", cfg, workers=4, tag=f"refines{tag}")
    os.remove(ref["out"])
    # the repository's own suite (tests live in /repo; the package under test comes from PYPLATE_SRC when set)
    p = subprocess.run(["/venv/bin/python", "-m", "pytest", "-q", "-p", "no:cacheprovider", "-p", "verif_recorder", "--timeout=600",
                        os.path.join(REPO, "tests")], cwd=REPO if src == REPO else src, env=env, stdout=subprocess.PIPE, stderr=subprocess.STDOUT, text=True)
    suite = p.stdout.strip().splitlines()[-1] if p.stdout.strip() else ""
    traces = json.load(open(tfile)) if os.path.exists(tfile) else []
    sources = ["tests"] * len(traces)
    for ex in ("Example.py", "Test_Example.py"):
        path = os.path.join(REPO, "examples", ex)
        if not os.path.exists(path):
            continue
        efile = tfile + "." + ex
        e2 = dict(env, VERIF_TRACE_OUT=efile, MPLBACKEND="Agg")
        subprocess.run(["/venv/bin/python", "-c", f"import verif_recorder, runpy; runpy.run_path({path!r}, run_name='__main__')"],
                       cwd=wd, env=e2, stdout=subprocess.DEVNULL, stderr=subprocess.DEVNULL, timeout=300)
        if os.path.exists(efile):
            more = json.load(open(efile))
            traces += more
            sources += [ex] * len(more)
            os.remove(efile)
    n_events = sum(len(t) for t in traces)
    viol, count = [], {}
    remaining = list(range(len(traces)))
    generated = distinct = 0
    accepted = 0
    for _ in range(12):
        cur = [traces[i] for i in remaining]
        if not cur:
            break
        json.dump(cur, open(tfile, "w"))
        cmd = ["java", "-XX:+UseSerialGC", "-Xmx2g", "-cp", tlcrun.JAR, "tlc2.TLC", "-workers", "1", "-metadir", os.path.join(wd, f"meta{tag}"),
               "-noGenerateSpecTE", "-config", "LifecycleTrace.cfg", "LifecycleTrace.tla"]
        r = subprocess.run(cmd, cwd=tlcrun.SPEC, env=dict(os.environ, TRACE_FILE=tfile), stdout=subprocess.PIPE, stderr=subprocess.STDOUT, text=True)
        m = re.search(r'"VALIDATED", (\d+), "of", (\d+), "last", <<(\d+), (\d+)>>', r.stdout)
        g = re.search(r"(\d[\d,]*) states generated, (\d[\d,]*) distinct", r.stdout)
        if g:
            generated += int(g.group(1).replace(",", "")); distinct += int(g.group(2).replace(",", ""))
        if not m:
            raise SystemExit("LifecycleTrace: TLC gave no verdict\n" + r.stdout[-1500:])
        k, n, lt, ll = map(int, m.groups())
        if k == n:
            accepted += n
            break
        # trace k+1 (1-based) of the current batch was rejected; the longest matched prefix ends at <<lt, ll>>
        bad = remaining[k]
        pos = ll if lt == k + 1 else 0
        ev = traces[bad][pos] if pos < len(traces[bad]) else {"m": "end"}
        key = {"op": ev.get("m"), "out": ev.get("out"), "clause": "recorded_execution_not_a_lifecycle_behaviour"}
        fk = json.dumps(key, sort_keys=True)
        count[fk] = count.get(fk, 0) + 1
        viol.append({"property": "C16", "clause": key["clause"], "class_key": key,
                     "detail": f"trace from {sources[bad]}: event {pos + 1} of {len(traces[bad])} is not allowed by Lifecycle.tla after the matched prefix: {json.dumps(ev)[:300]}",
                     "event": ev, "path": traces[bad][:pos + 1]})
        accepted += k
        remaining = remaining[k + 1:]
    res = {"instance": "LifecycleTrace", "tlc": {"generated": generated, "distinct": distinct, "wall": time.time() - t0, "cmd": "tlc2.TLC LifecycleTrace"},
           "counts": {"executed": n_events, "traces": len(traces), "traces_accepted": accepted, "suite": suite,
                      "refinement_Recipe_implements_Lifecycle": {"transitions": ref["generated"], "states": ref["distinct"]}},
           "evaluated": {"C16": n_events}, "distinct_states": distinct, "violations": viol,
           "violation_counts": [{"property": "C16", "class_key": json.loads(fk), "count": c} for fk, c in count.items()],
           "samples": [{"trace_from": sources[0] if sources else None, "events": traces[0][:6] if traces else []}]}
    json.dump(res, open(out_path, "w"))
    if os.path.exists(tfile):
        os.remove(tfile)


if __name__ == "__main__":
    main(sys.argv[1:])
