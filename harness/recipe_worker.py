"""Recipe leg: TLC explores Recipe.tla (lifecycle or program instance, shard i of K) and prints every API call
with its history, specified outcome and - for a successful bake - the results, the ledger and the answers of
the tracking queries.  The replay re-executes history + call on a fresh Recipe (recipes are mutable) over a
shared pool of declared originals (which must never change: C04) and evaluates the monitors of C08, C09,
C15, C16, C17.

usage: recipe_worker.py <instance> <maxcalls> <shard> <nshards> <v> <a> <seed> <out.json> [simulate=num,depth,seed]"""
import json
import os
import sys
import time
import traceback

import numpy as np

sys.path.insert(0, os.path.dirname(os.path.abspath(__file__)))
import tlcrun          # noqa: E402
import instances       # noqa: E402
import inst as I       # noqa: E402
import model           # noqa: E402
from model import rat, KIND, per_unit  # noqa: E402
from lab_replay import LabReplay  # noqa: E402
from proj import Proj  # noqa: E402

MAXS = 3
DIMS = ("L", "g", "mol", "U")


class RecipeReplay:
    def __init__(self, pp, inst, config, rconfig, instance):
        self.pp, self.inst, self.P = pp, inst, Proj(inst)
        self.lab = LabReplay(pp, inst, config, instance=instance)     # builds objects, renders selectors
        self.shape = self.lab.shape
        self.objname = rconfig["objname"]
        self.dsets = rconfig["dsets"]
        self.pool_state = model.state(config["inits"][0])
        self.pool = {}
        for oid, name in self.objname.items():
            v = self.pool_state[name]
            if self.shape[name] == (0, 0):
                self.pool[oid] = self.lab.build_container(name, v["cap"], v["w"][0])
            else:
                nr, nc = self.shape[name]
                p = pp.Plate(name, inst.capacity(v["cap"]), rows=nr, columns=nc)
                for i, w in enumerate(v["w"]):
                    if any(x != 0 for x in w["c"].values()):
                        r, c = divmod(i, nc)
                        p.wells[r, c] = self.lab.build_container(p.wells[r, c].name, v["cap"], w)
                self.pool[oid] = p
        self.pool_fp = {oid: self.P.fp(o) for oid, o in self.pool.items()}
        self.viol, self.count, self.evaluated, self.samples = [], {}, {}, []
        self.counts = {"events": 0, "executed": 0, "bakes": 0, "queries": 0, "calls": 0}
        self.by_class = {}

    # ---- bookkeeping ------------------------------------------------------------------------------------
    def ran(self, prop, n=1):
        self.evaluated[prop] = self.evaluated.get(prop, 0) + n

    def report(self, prop, clause, key, detail, ev):
        key = {k: (v if isinstance(v, (int, str, bool)) or v is None else str(v)) for k, v in key.items()}
        key["clause"] = clause
        fk = (prop, json.dumps(key, sort_keys=True))
        n = self.count.get(fk, 0)
        self.count[fk] = n + 1
        if n < MAXS:
            slim = {k: v for k, v in ev.items() if k not in ("snaps", "battery", "results", "trash")}
            self.viol.append({"property": prop, "clause": clause, "class_key": key, "detail": detail, "event": slim,
                              "path": ev.get("history", []) + [ev.get("call")]})

    # ---- executing calls ----------------------------------------------------------------------------------
    def handle(self, ctx, name):
        """the Python object a user would pass for `name`."""
        if name in ctx["created"]:
            return ctx["created"][name]
        if name in self.pool and self.objname[name] == name:
            return self.pool[name]
        if name not in ctx["strangers"]:
            ctx["strangers"][name] = self.pp.Container(name)          # never declared to the recipe
        return ctx["strangers"][name]

    def arg(self, ctx, n, r):
        o = self.handle(ctx, n)
        if r in ("-", "plate") or not isinstance(o, self.pp.Plate):
            return o
        ast = self.lab.regions[r]
        if ast["k"] == "sub":
            def py(x):
                return x["i"] if x["k"] == "at" else slice(None if x["lo"] < 0 else x["lo"], None if x["hi"] < 0 else x["hi"], x["st"] or None)
            sl = o[self.lab.selector(ast["base"])][py(ast["a"]), py(ast["b"])]
        else:
            sl = o[self.lab.selector(ast)]
        ctx["slices"].append((sl, o, repr(sl.slices)))      # the user's slice object: must never change (C04)
        return sl

    def do_call(self, ctx, c, salt, auto_uses):
        """performs one API call; returns (outcome class, exception)"""
        pp, inst, recipe = self.pp, self.inst, ctx["recipe"]
        k = c["call"]
        self.counts["calls"] += 1
        try:
            if auto_uses and k not in ("uses", "uses_list", "start_stage", "end_stage", "bake"):
                ops = {"transfer": [c.get("sn"), c.get("dn")], "create_solution": [c.get("solvent")],
                       "create_solution_from": [c.get("src")]}.get(k, [c.get("n")])
                for n in ops:
                    if n in self.pool and self.objname.get(n) == n and n not in recipe.results and n not in ctx["created"]:
                        recipe.uses(self.pool[n])
                        ctx["from_pool"][n] = n
            if k == "uses":
                recipe.uses(self.pool[c["o"]])
                ctx["from_pool"][self.objname[c["o"]]] = c["o"]
            elif k == "uses_list":
                # alternately as one list argument and as one positional argument followed by a tuple of the rest
                objs = [self.pool[o] for o in c["os"]]
                for o in c["os"]:
                    ctx["from_pool"].setdefault(self.objname[o], o)
                if len(salt) % 2:
                    recipe.uses(objs)
                else:
                    recipe.uses(objs[0], tuple(objs[1:]))
            elif k == "create_container":
                entries = [(inst.subs[e[0]], inst.quantity(rat(e[1]), "U" if model.is_enzyme(e[0]) else "mol", f"{salt}e{i}"))
                           for i, e in enumerate(c["entries"])]
                ctx["created"].setdefault("_pending", None)
                obj = recipe.create_container(c["n"], inst.capacity(rat(c["cap"])), entries)
                ctx["created"][c["n"]] = obj
            elif k == "create_solution":
                solvent = self.handle(ctx, c["solvent"]) if c["solvent"] in self.shape else inst.subs[c["solvent"]]
                obj = recipe.create_solution(inst.subs[c["solute"]], solvent, name=c["n"],
                                             quantity=inst.quantity(rat(c["q"]), c["qu"], salt + "q"),
                                             total_quantity=inst.quantity(rat(c["total"]), c["tu"], salt + "t"))
                ctx["created"][c["n"]] = obj
            elif k == "create_solution_from":
                obj = recipe.create_solution_from(self.handle(ctx, c["src"]), inst.subs[c["solute"]],
                                                  inst.concentration(rat(c["t"]), c["nu"], c["du"], salt + "c"),
                                                  inst.subs[c["solvent"]], inst.quantity(rat(c["total"]), c["tu"], salt + "t"),
                                                  name=c["n"])
                ctx["created"][c["n"]] = obj
            elif k == "transfer":
                recipe.transfer(self.arg(ctx, c["sn"], c["sr"]), self.arg(ctx, c["dn"], c["dr"]), inst.quantity(rat(c["q"]), c["u"], salt))
            elif k == "remove":
                recipe.remove(self.arg(ctx, c["n"], c["r"]), self.lab.what(c["what"]))
            elif k == "dilute":
                recipe.dilute(self.handle(ctx, c["n"]), inst.subs[c["solute"]], inst.concentration(rat(c["t"]), c["nu"], c["du"], salt),
                              inst.subs[c["solvent"]], **({"new_name": c["rename"]} if c.get("rename", "-") != "-" else {}))
            elif k == "fill_to":
                recipe.fill_to(self.arg(ctx, c["n"], c["r"]), inst.subs[c["solvent"]], inst.quantity(rat(c["T"]), c["u"], salt))
            elif k == "start_stage":
                recipe.start_stage(c["name"])
            elif k == "end_stage":
                recipe.end_stage(c["name"])
            elif k == "bake":
                ctx["baked"] = recipe.bake()
            else:
                raise NotImplementedError(k)
            return "ok", None
        except NotImplementedError:
            raise
        except RuntimeError as e:
            return "RuntimeError", e
        except ValueError as e:
            return "ValueError", e
        except Exception as e:
            return type(e).__name__, e

    def fresh(self):
        return {"recipe": self.pp.Recipe(), "created": {}, "strangers": {}, "baked": None, "from_pool": {}, "slices": []}

    # ---- the main loop ------------------------------------------------------------------------------------
    def run(self, stream, auto_uses):
        for idx, ev in enumerate(stream):
            if ev.get("op") != "call":
                continue
            self.counts["events"] += 1
            self.step(ev, idx, auto_uses)
        for oid, o in self.pool.items():
            self.ran("C04")
            if self.P.fp(o) != self.pool_fp[oid]:
                self.report("C04", "declared_original_changed", {"op": "recipe", "object": oid},
                            f"pool object {oid} was changed by declaring it, adding steps, baking or querying", {"call": "end"})

    def step(self, ev, idx, auto_uses):
        c = ev["call"]
        ctx = self.fresh()
        baked_before = None
        for j, h in enumerate(ev["history"]):
            self.do_call(ctx, h, f"{idx}h{j}", auto_uses)
        post_bake = ctx["baked"] is not None
        if post_bake:
            baked_before = self.snapshot_answers(ctx)
        recipe = ctx["recipe"]
        if c["call"] == "bake" and not recipe.locked:
            pre_fps = {n: self.P.fp(o) for n, o in recipe.results.items()}
        else:
            pre_fps = None
        out, exc = self.do_call(ctx, c, f"{idx}", auto_uses)
        self.counts["executed"] += 1
        ck = (c["call"], ev["cls"], ev["res"])
        self.by_class[ck] = self.by_class.get(ck, 0) + 1
        self.mon_c16(ev, ctx, out, exc, baked_before)
        for sl, origin, slices in ctx["slices"]:
            self.ran("C04")
            if sl.plate is not origin or repr(sl.slices) != slices:
                self.report("C04", "slice_argument_changed_by_recipe", {"op": "recipe", "call": c["call"]},
                            f"a slice passed to the recipe refers to {'another plate object' if sl.plate is not origin else 'other wells'} after {c['call']}", ev)
                break
        if c["call"] == "bake" and ev["cls"] in ("baked", "step_infeasible"):
            self.mon_bake(ev, ctx, out, exc, pre_fps)
        if len(self.samples) < 3 and ev["res"] == "ok" and c["call"] == "bake" and len(ev["history"]) >= 2:
            self.samples.append({"history": ev["history"], "call": c, "specified": {"res": ev["res"], "decl": ev["decl"], "nsteps": ev["nsteps"]},
                                 "implementation": {"outcome": out, "results": list(ctx["recipe"].results)}})

    # ---- C16 -------------------------------------------------------------------------------------------------
    def snapshot_answers(self, ctx):
        recipe = ctx["recipe"]
        snap = {"results": {n: self.P.fp(o) for n, o in recipe.results.items()}, "answers": []}
        for s in ("W", "N"):
            try:
                snap["answers"].append(recipe.get_substance_used(self.inst.subs[s], "all"))
            except Exception as e:
                snap["answers"].append(type(e).__name__)
        for n, o in recipe.results.items():
            if isinstance(o, self.pp.Container):
                try:
                    snap["answers"].append((recipe.get_amount_remaining(o, "all", "uL"), recipe.get_container_flows(o, "all", "uL")))
                except Exception as e:
                    snap["answers"].append(type(e).__name__)
        return snap

    def mon_c16(self, ev, ctx, out, exc, baked_before):
        c, recipe = ev["call"], ctx["recipe"]
        self.ran("C16")
        key = {"op": c["call"], "cls": ev["cls"], "after_bake": baked_before is not None}
        if c["call"] == "bake":
            key["slice_fill"] = any(h["call"] == "fill_to" and h.get("r") not in ("-", "plate", "all") for h in ev["history"])
        call_txt = json.dumps(c)[:200]
        want = ev["res"]
        if want == "ok":
            if out == "ValueError" and c["call"] == "bake" and self.fragile(ev):
                return      # a step sits exactly on a feasibility boundary: the verdict is not asserted (DESIGN 4.3)
            if out != "ok":
                self.report("C16", "valid_call_refused", dict(key, exc=out), f"{call_txt} after {len(ev['history'])} calls raised {out}: {exc}", ev)
                if c["call"] in ("dilute", "fill_to") and out != "RuntimeError":
                    # a reachable target refused when the step is declared (the recipe checks the request itself): C11's refusal clause
                    self.ran("C11")
                    self.report("C11", "feasible_refused", dict(key, exc=out, site="recipe"), f"recipe.{c['call']}: {call_txt} raised {out}: {exc}", ev)
                return
        elif want == "RuntimeError":
            if out != "RuntimeError":
                self.report("C16", "locked_recipe_accepts" if out == "ok" else "locked_not_RuntimeError", dict(key, got=out),
                            f"{call_txt} on a baked recipe: {'accepted' if out == 'ok' else out}", ev)
                if out == "ok":
                    return
        elif want == "refused":
            if out == "ok":
                self.report("C16", "discipline_not_enforced", key, f"{call_txt} ({ev['cls']}) was accepted", ev)
                return
        elif want == "notRuntimeError":
            # a stage call after a bake that failed part-way: the stage bookkeeping is not specified, the lock is
            if out == "RuntimeError":
                self.report("C16", "unlocked_recipe_raises_RuntimeError", key, f"{call_txt} after a bake that failed on an infeasible step raised RuntimeError: {exc}", ev)
            return
        elif want == "ValueError":
            # a value-level bake failure (judged by C08 / C03); the recipe has not been baked successfully, so it is not locked
            if out == "ValueError" and recipe.locked:
                self.report("C16", "locked_by_failed_bake", key, f"{call_txt} failed ({exc}) and left the recipe locked", ev)
            return
        # the observable recipe state after the call
        if ev["cls"] == "step_infeasible":
            return      # a bake that failed on an infeasible step is terminal in the specification
        if len(recipe.steps) != ev["nsteps"]:
            self.report("C16", "steps_changed", key, f"{call_txt}: {len(recipe.steps)} steps recorded, specified {ev['nsteps']}", ev)
        elif list(recipe.results.keys()) != ev["decl"]:
            self.report("C16", "declared_set", key, f"{call_txt}: declared {list(recipe.results.keys())}, specified {ev['decl']}", ev)
        elif bool(recipe.locked) != ev["locked"]:
            self.report("C16", "locked_flag", key, f"{call_txt}: locked={recipe.locked}, specified {ev['locked']}", ev)
        elif "cur" in ev and not ev.get("dead") and (recipe.current_stage != ev["cur"] or set(recipe.stages) - {"all"} != set(ev["stageNames"])):
            self.report("C16", "stage_bookkeeping", key,
                        f"{call_txt}: open stage {recipe.current_stage!r}, closed stages {sorted(set(recipe.stages) - {'all'})}; specified {ev['cur']!r}, {sorted(ev['stageNames'])}", ev)
        elif "curStart" in ev and not ev.get("dead") and ev["cur"] != "all" and getattr(recipe, "current_stage_start", ev["curStart"]) != ev["curStart"]:
            # the open stage begins where start_stage was ACCEPTED: a refused call in between must not move it.  The frame of
            # a stage is what C09 ("exactly the steps of the timeframe") and C15 ("during the timeframe") are about, too
            for prop in ("C16", "C09", "C15"):
                self.ran(prop)
                self.report(prop, "stage_bookkeeping" if prop == "C16" else "stage_frame", key,
                            f"{call_txt}: the open stage {recipe.current_stage!r} starts at step {recipe.current_stage_start}, specified {ev['curStart']}", ev)
        if baked_before is not None:
            after = self.snapshot_answers(ctx)
            if after["results"] != baked_before["results"]:
                self.report("C16", "results_changed_after_bake", key, f"{call_txt}: the baked results changed", ev)
            elif repr(after["answers"]) != repr(baked_before["answers"]):
                self.report("C16", "answers_changed_after_bake", key, f"{call_txt}: tracking answers changed from {baked_before['answers']} to {after['answers']}", ev)

    # ---- C08 / C09 / C15 / C17 at bake -------------------------------------------------------------------------
    def prog_key(self, ev):
        kinds = sorted({st["call"] for st in ev["prog"]}) if "prog" in ev else []
        return {"op": "bake", "steps": "+".join(kinds)}

    def mon_bake(self, ev, ctx, out, exc, pre_fps):
        recipe = ctx["recipe"]
        self.counts["bakes"] += 1
        hist_steps = [h for h in ev["history"] if h["call"] not in ("uses", "uses_list", "start_stage", "end_stage", "bake")]
        key = {"op": "bake", "steps": "+".join(sorted({h["call"] for h in hist_steps})),
               "slice_fill": any(h["call"] == "fill_to" and h["r"] not in ("-", "plate", "all") for h in hist_steps),
               "renamed": any(h["call"] == "dilute" and h.get("rename", "-") != "-" for h in hist_steps)}
        self.ran("C08")
        if ev["cls"] == "step_infeasible":
            self.ran("C03")
            if self.fragile(ev):
                return
            if out == "ok":
                self.report("C08", "infeasible_program_baked", key, "a program with an infeasible step was baked", ev)
                self.report("C03", "infeasible_accepted", dict(key, cls="step_infeasible"), "bake accepted a program with an infeasible step", ev)
            elif out != "ValueError":
                self.report("C03", "refusal_not_ValueError", dict(key, exc=out), f"bake raised {out}: {exc}", ev)
            return
        if out != "ok":
            if out == "ValueError" and self.fragile(ev):
                self.counts["boundary_bakes_not_asserted"] = self.counts.get("boundary_bakes_not_asserted", 0) + 1
                return
            self.report("C08", "valid_program_not_baked", dict(key, exc=out), f"bake raised {out}: {exc}", ev)
            return
        # steps have no effect before bake: the declared copies were still the originals
        if pre_fps is not None:
            for n, fp in pre_fps.items():
                oid = ctx["from_pool"].get(n)
                if oid is not None and fp != self.pool_fp[oid]:
                    self.report("C08", "effect_before_bake", key, f"declared object {n} differed from its original before bake", ev)
        results = ctx["baked"]
        if list(results.keys()) != ev["decl"]:
            self.report("C08", "result_names", key, f"bake returned {list(results.keys())}, specified {ev['decl']}", ev)
            return
        k = len(ev["prog"]) + 1
        # C03: nothing bake returns holds a negative amount, a negative volume or more than its stated capacity
        self.ran("C03")
        for n in ev["decl"]:
            bad = self.P.invalid(results[n], k)
            if bad:
                self.report("C03", "invalid_object_returned", dict(key, object=self.kind_of(n)), f"bake()[{n!r}]: {bad}", ev)
                break
        for n, spec_v in zip(ev["decl"], ev["results"]):
            if self.kind_of(n) == "P":
                self.ran("C07")
            d = self.P.vessel_diff(results[n], model.vessel(spec_v), k)
            if d:
                self.report("C08", "result_differs_from_eager", dict(key, object=self.kind_of(n)), f"bake()[{n!r}]: {d}", ev)
                self.also(ev, recipe, k, n, None, key, "result_differs_from_direct", f"bake()[{n!r}]: {d}")
                self.counts["queries_skipped_behind_divergence"] = self.counts.get("queries_skipped_behind_divergence", 0) + 1
                return
        if not ev.get("snaps"):
            return
        snaps = [model.state(s) for s in ev["snaps"]]
        # every step saw the effects of all earlier steps: RecipeStep before/after objects against the ledger
        for i, (st, step) in enumerate(zip(ev["prog"], recipe.steps)):
            to_name = st["dn"] if st["call"] == "transfer" else st["n"]
            frm_name = st["sn"] if st["call"] == "transfer" else st.get("src") if st["call"] == "create_solution_from" else None
            pairs = [(to_name, step.to)] + ([(frm_name, step.frm)] if frm_name else [])
            for name, lst in pairs:
                if len(lst) < 2 or lst[0] is None or lst[1] is None:
                    self.report("C08", "step_record_incomplete", dict(key, step=st["call"]), f"step {i + 1} has no before/after record for {name}", ev)
                    return
                before = snaps[i][name]
                if st["call"] in ("create_container", "create_solution", "create_solution_from") and name == st["n"]:
                    before = None
                for which, obj, spec_v in (("before", lst[0], before), ("after", lst[1], snaps[i + 1][name])):
                    if spec_v is None:
                        continue
                    d = self.P.vessel_diff(obj, spec_v, k) if not isinstance(obj, self.pp.PlateSlicer) else "a slice was recorded"
                    if d:
                        self.report("C08", "step_state_differs", dict(key, step=st["call"], which=which, object=self.kind_of(name)),
                                    f"step {i + 1} ({st['call']}): {name} {which}: {d}", ev)
                        self.also(ev, recipe, k, name, st, key, "step_differs_from_direct", f"step {i + 1} ({st['call']}): {name} {which}: {d}")
                        return
            # C17: what a remove step records as discarded
            if st["call"] == "remove":
                self.ran("C17")
                spec_trash = model.contents(ev["trash"][i])
                got = {}
                for sub, amt in step.trash.items():
                    m = self.inst.model_name(sub)
                    got[m] = got.get(m, 0.0) + amt
                for s, x in spec_trash.items():
                    e = self.P.exp_amount(s, x)
                    if not self.P.close(got.get(s, 0.0), e, k + 4):
                        self.report("C17", "discarded_amount", {"op": "remove", "what": st["what"] if st["what"] in ("solid", "liquid", "enzyme") else "substance",
                                                                  "target": self.lab.target_kind(st["n"], st["r"]), "partial": self.partial(st, snaps[i])},
                                    f"remove step {i + 1}: {got.get(s, 0.0)!r} of {s} recorded as discarded, {e!r} left the wells", ev)
                        break
        self.mon_step_instructions(ev, ctx, key, snaps)
        self.mon_queries(ev, ctx, key, snaps)

    def fragile(self, ev):
        return any(c in ("boundary", "degenerate") for c in ev.get("clss", []))

    # ---- C19: the instruction text of baked steps states the true amounts ----------------------------------------
    def mon_step_instructions(self, ev, ctx, key, snaps):
        import re
        from model import VOLPER
        recipe, inst, lab = ctx["recipe"], self.inst, self.lab
        for i, (st, step) in enumerate(zip(ev["prog"], recipe.steps)):
            text = " ".join((step.instructions or "").split())
            call = st["call"]
            k19 = {"op": "recipe_step", "step": call}
            if call in ("dilute", "fill_to"):
                name = st["n"]
                before, after = snaps[i][name], snaps[i + 1][name]
                added = [(a["c"][st["solvent"]] - b["c"][st["solvent"]]) * VOLPER[st["solvent"]] for a, b in zip(after["w"], before["w"])]
                if call == "fill_to" and self.shape[name] != (0, 0):
                    if st["r"] not in ("plate", "all"):
                        continue        # slice fills: recorded finding F02
                    self.ran("C19")
                    m = re.fullmatch(r"Fill '(.+)' with '(.+)' up to (.+?) by adding: (.*)\.", text)
                    plate_facts = [{"L": x} for x in added if float(x) > 0 and not self.rounds_to_zero(x)]
                    if not m:
                        if not lab.reworded(text, plate_facts, [inst.subs[st["solvent"]].name]):
                            self.report("C19", "step_instruction_unreadable", k19, f"step {i + 1}: {text!r}", ev)
                        continue
                    nr, nc = self.shape[name]
                    rows = [chr(ord("A") + r) for r in range(nr)]
                    stated = {}
                    bad = False
                    twice = None
                    for part in re.findall(r"([-0-9.e]+ \w+) to \[([^\]]*)\]", m.group(4)):
                        q = lab.stated(part[0], ("L",))
                        if q is None:
                            bad = True
                            break
                        for addr in part[1].split(", "):
                            ends = addr.split(":")
                            def rc(a):
                                return rows.index(a[0]), int(a[1:]) - 1
                            (r0, c0), (r1, c1) = rc(ends[0]), rc(ends[-1])
                            for r in range(r0, r1 + 1):
                                for c in range(c0, c1 + 1):
                                    if r * nc + c in stated:
                                        twice = addr          # a well named under two amounts: the sentence contradicts itself
                                    stated[r * nc + c] = q
                    if bad:
                        if not lab.reworded(text, plate_facts, [inst.subs[st["solvent"]].name]):
                            self.report("C19", "step_instruction_unreadable", k19, f"step {i + 1}: {text!r}", ev)
                        continue
                    if twice:
                        self.report("C19", "step_amount_misstated", dict(k19, target="P"), f"step {i + 1}: {text!r} names a well of {twice} under two different amounts", ev)
                        continue
                    for w, x in enumerate(added):
                        q = stated.get(w)
                        if q is None:
                            if float(x * inst.base_scale("L")) > 1e-3 * 1e-6 * 0 + 1e-9 and not self.rounds_to_zero(x):
                                self.report("C19", "step_amount_misstated", dict(k19, target="P"), f"step {i + 1}: {text!r} says nothing about well {w + 1}, which received {float(x * inst.base_scale('L'))!r} L", ev)
                                break
                        elif not lab.fact_ok(q, x, "L"):
                            self.report("C19", "step_amount_misstated", dict(k19, target="P"), f"step {i + 1}: {text!r}; well {w + 1} actually received {float(x * inst.base_scale('L'))!r} L", ev)
                            break
                    continue
                self.ran("C19")
                if call == "dilute":
                    m = re.fullmatch(r"Dilute '(.+)' in '(.+)' to (.+) by adding (.+?) of '(.+)'\.", text)
                    qtxt = m.group(4) if m else None
                else:
                    m = re.fullmatch(r"Fill '(.+)' with '(.+)' up to (.+) by adding (.+?)\.", text)
                    qtxt = m.group(4) if m else None
                q = lab.stated(qtxt, ("L",)) if qtxt else None
                if q is None:
                    if not lab.reworded(text, [{"L": added[0]}] if added[0] != 0 else [], [inst.subs[st["solvent"]].name]):
                        self.report("C19", "step_instruction_unreadable", k19, f"step {i + 1}: {text!r}", ev)
                elif not lab.fact_ok(q, added[0], "L"):
                    self.report("C19", "step_amount_misstated", dict(k19, target="C"),
                                f"step {i + 1}: {text!r}; actually added {float(added[0] * inst.base_scale('L'))!r} L", ev)
            elif call == "transfer":
                self.ran("C19")
                m = re.fullmatch(r"Transfer (.+?) from '(.+)' to '(.+)'\.", text)
                q = lab.stated(m.group(1)) if m else None
                if q is None:
                    if not lab.reworded(text, [{st["u"]: rat(st["q"])}]):
                        self.report("C19", "step_instruction_unreadable", k19, f"step {i + 1}: {text!r}", ev)
                elif q[1] != st["u"] or not lab.fact_ok((q[0], q[1], abs(q[0]) * 1e-9), rat(st["q"]), st["u"]):
                    self.report("C19", "step_amount_misstated", k19, f"step {i + 1}: {text!r}; requested {float(rat(st['q']) * inst.base_scale(st['u']))!r} {st['u']}", ev)

    def rounds_to_zero(self, x):
        """an addition below half a unit of the displayed precision of the plate fill text is omitted from it"""
        return float(x * self.inst.base_scale("L")) < 0.5e-3 * 1e-6 * 1000

    def first_divergent_step(self, ev, recipe, k):
        """the first step whose recorded before/after objects differ from the ledger of the specification: (step, object name)"""
        if not ev.get("snaps"):
            return None
        snaps = [model.state(s_) for s_ in ev["snaps"]]
        for i, (st, step) in enumerate(zip(ev["prog"], recipe.steps)):
            to_name = st["dn"] if st["call"] == "transfer" else st["n"]
            frm_name = st["sn"] if st["call"] == "transfer" else st.get("src") if st["call"] == "create_solution_from" else None
            for name, lst in [(to_name, step.to)] + ([(frm_name, step.frm)] if frm_name else []):
                if len(lst) < 2 or lst[0] is None or lst[1] is None or isinstance(lst[1], self.pp.PlateSlicer):
                    return st, name
                if self.P.vessel_diff(lst[1], snaps[i + 1][name], k):
                    return st, name
        return None

    def also(self, ev, recipe, k, name, st, key, clause, detail):
        """a recipe step whose outcome differs from the direct operation also breaks the property that specifies that operation
        'directly or as a recipe step': C07 when it is an operation on a plate (well by well, on the addressed wells), C17 when
        it is a remove step.  The step blamed is the FIRST one that differs; later ones only inherit its state."""
        if st is None:
            fd = self.first_divergent_step(ev, recipe, k)
            st, name = fd if fd else (None, name)
        if self.kind_of(name) == "P":
            self.ran("C07")
            self.report("C07", clause, dict(key, object="P", step=st["call"] if st else "-"), "as a recipe step: " + detail, ev)
        if st is not None and st["call"] == "remove":
            self.ran("C17")
            self.report("C17", clause, dict(key, object=self.kind_of(name)), "remove as a recipe step: " + detail, ev)

    def kind_of(self, name):
        return "C" if self.shape[name] == (0, 0) else "P"

    def partial(self, st, snap):
        """does the remove step leave some of a selected substance elsewhere in the object?"""
        v = snap[st["n"]]
        region = self.lab_region_wells(st["n"], st["r"], len(v["w"]))
        for i, w in enumerate(v["w"]):
            if (i + 1) not in region and any(x != 0 and model.selected(st["what"], s) for s, x in w["c"].items()):
                return True
        return False

    def lab_region_wells(self, n, r, nw):
        if r in ("-", "plate", "all"):
            return set(range(1, nw + 1))
        nr, nc = self.shape[n]
        p = self.pp.Plate("tmp", "1 L", rows=nr, columns=nc)
        ast = self.lab.regions[r]
        if ast["k"] == "sub":
            def py(x):
                return x["i"] if x["k"] == "at" else slice(None if x["lo"] < 0 else x["lo"], None if x["hi"] < 0 else x["hi"], x["st"] or None)
            names = [c.name for c in p[self.lab.selector(ast["base"])][py(ast["a"]), py(ast["b"])].get().flatten()]
        else:
            names = [c.name for c in p[self.lab.selector(ast)].get().flatten()]
        allnames = [c.name for c in p.wells.flatten()]
        return {allnames.index(x) + 1 for x in names}

    def mon_queries(self, ev, ctx, key, snaps):
        recipe, inst, pp = ctx["recipe"], self.inst, self.pp
        bat = ev["battery"]
        tfs = bat["tfs"]
        prec = pp.config.precisions
        has_remove = any(st["call"] == "remove" for st in ev["prog"])
        partial_remove = any(st["call"] == "remove" and self.partial(st, snaps[i]) for i, st in enumerate(ev["prog"]))
        qkey = dict(key, stages=len(tfs) - 1)
        removed_from = {st["n"] for st in ev["prog"] if st["call"] == "remove"}
        # what the remove steps of the program discarded, per substance (C17: "the amounts removed are what usage tracking
        # reports as discarded" - a wrong get_substance_used answer for such a substance is also C17's)
        discarded = {}
        for i, st in enumerate(ev["prog"]):
            if st["call"] == "remove":
                for s_, x_ in model.contents(ev["trash"][i]).items():
                    discarded[s_] = discarded.get(s_, 0) + x_

        def also_c17(s, k9, text):
            if discarded.get(s, 0) > 0:
                self.ran("C17")
                self.report("C17", "discarded_not_reported", dict(k9, query="get_substance_used"), text, ev)
        # ---- C09 get_substance_used ---------------------------------------------------------------------------
        for t, tf in enumerate(tfs):
            for j, dset in enumerate(self.dsets):
                if dset == ["*plates*"]:
                    dest = "plates"
                    dlabel = "plates"
                else:
                    dnames = [n for n in dset if n in ev["decl"]]
                    dest = [ctx["baked"][n] for n in dnames]
                    dlabel = "+".join(sorted(self.kind_of(n) for n in dnames)) or "none"
                for s, x in bat["used"][t][j].items():
                    x = rat(x)
                    for unit in self.used_units(s):
                        self.ran("C09")
                        self.counts["queries"] += 1
                        k9 = dict(qkey, dest=dlabel, unit_dim=unit[1], timeframe="all" if tf == "all" else "stage",
                                  partial_remove=partial_remove)
                        e = float(x * self.used_scale(s, unit))
                        p = prec.get(unit[0], prec["default"]) if unit[0] else None
                        try:
                            got = recipe.get_substance_used(inst.subs[s], tf, unit[0], dest) if unit[0] else recipe.get_substance_used(inst.subs[s], tf, destinations=dest)
                            exc = None
                        except Exception as ex:
                            got, exc = None, ex
                        if unit[0] is None:
                            du = "U" if model.is_enzyme(s) else pp.config.moles_display_unit
                            p = prec.get(du, prec["default"])
                        tol = 0.5 * 10 ** (-p) * 1.0001 + 1e-6 * abs(e)
                        # the sign of the specified amount is exact (a rational): any net decrease must be refused, however
                        # small it looks at the display precision of the requested unit; only exactly zero is don't-care
                        if x < 0:
                            if exc is None:
                                self.report("C09", "net_decrease_reported", k9, f"get_substance_used({s}, {tf!r}, {unit[0]!r}, {dlabel}) = {got!r}; the destinations lost {-e!r}", ev)
                            elif not isinstance(exc, ValueError):
                                self.report("C09", "net_decrease_not_ValueError", dict(k9, exc=type(exc).__name__), f"get_substance_used({s}, {tf!r}, ..) raised {type(exc).__name__}: {exc}", ev)
                        elif exc is not None:
                            if x > 0:
                                self.report("C09", "query_raises", dict(k9, exc=type(exc).__name__), f"get_substance_used({s}, {tf!r}, {unit[0]!r}, {dlabel}) raised {type(exc).__name__}: {exc}; specified {e!r}", ev)
                                also_c17(s, k9, f"get_substance_used({s}, {tf!r}, {unit[0]!r}, {dlabel}) raised {type(exc).__name__}: {exc}; specified {e!r} (remove steps discarded some {s})")
                        elif abs(got - e) > tol:
                            self.report("C09", "wrong_amount", k9, f"get_substance_used({s}, {tf!r}, {unit[0]!r}, {dlabel}) = {got!r}, specified {e!r}", ev)
                            also_c17(s, k9, f"get_substance_used({s}, {tf!r}, {unit[0]!r}, {dlabel}) = {got!r}, specified {e!r} (remove steps discarded some {s})")
        # ---- C15 get_amount_remaining / get_container_flows ---------------------------------------------------------
        for t, tf in enumerate(tfs):
            for j, name in enumerate(ev["decl"]):
                ob = bat["objs"][t][j]
                if not ob["touched"]:
                    continue
                obj = ctx["baked"][name]
                is_plate = isinstance(obj, pp.Plate)
                for unit, dim, mult in (("uL", 0, 1e-6), ("mg", 1, 1e-3), ("umol", 2, 1e-6), ("U", 3, 1.0), ("mL", 0, 1e-3)):
                    sc = float(inst.base_scale(DIMS[dim])) / mult
                    p = prec.get(unit, prec["default"])
                    k15 = dict(qkey, object="P" if is_plate else "C", unit=unit, timeframe="all" if tf == "all" else "stage")
                    exp = {m: [float(rat(w[dim])) * sc for w in ob[m]] for m in ("before", "after")}
                    exp["in"] = [float(rat(w[dim])) * sc for w in ob["flows"]["in"]]
                    exp["out"] = [float(rat(w[dim])) * sc for w in ob["flows"]["out"]]
                    got = {}
                    for mode in ("before", "after"):
                        self.ran("C15")
                        self.counts["queries"] += 1
                        try:
                            r = recipe.get_amount_remaining(obj, tf, unit, mode)
                            got[mode] = list(np.asarray(r, dtype=float).flatten()) if r is not None else None
                        except Exception as ex:
                            self.report("C15", "amount_remaining_raises", dict(k15, exc=type(ex).__name__), f"get_amount_remaining({name}, {tf!r}, {unit!r}, {mode!r}) raised {type(ex).__name__}: {ex}", ev)
                            got[mode] = None
                            continue
                        if got[mode] is None or len(got[mode]) != len(exp[mode]) or any(abs(g - e) > 1e-6 * abs(e) + 1e-6 for g, e in zip(got[mode], exp[mode])):
                            self.report("C15", "amount_remaining", dict(k15, mode=mode), f"get_amount_remaining({name}, {tf!r}, {unit!r}, {mode!r}) = {got[mode]}, specified {exp[mode]}", ev)
                    self.ran("C15")
                    self.counts["queries"] += 1
                    try:
                        fl = recipe.get_container_flows(obj, tf, unit)
                        gin = list(np.asarray(fl["in"], dtype=float).flatten())
                        gout = list(np.asarray(fl["out"], dtype=float).flatten())
                    except Exception as ex:
                        self.report("C15", "container_flows_raises", dict(k15, exc=type(ex).__name__), f"get_container_flows({name}, {tf!r}, {unit!r}) raised {type(ex).__name__}: {ex}", ev)
                        if name in removed_from:
                            self.ran("C17")
                            self.report("C17", "discarded_not_reported", dict(k15, exc=type(ex).__name__), f"usage tracking of {name}, which a remove step emptied: get_container_flows({name}, {tf!r}, {unit!r}) raised {type(ex).__name__}: {ex}", ev)
                        continue
                    tol = 0.5 * 10 ** (-p) * 1.0001
                    for lab, g, e in (("in", gin, exp["in"]), ("out", gout, exp["out"])):
                        if len(g) != len(e) or any(abs(a - b) > tol + 1e-6 * abs(b) + 1e-9 for a, b in zip(g, e)):
                            self.report("C15", "container_flows", dict(k15, side=lab, same_plate=self.same_plate(ev), remove=has_remove),
                                        f"get_container_flows({name}, {tf!r}, {unit!r})[{lab!r}] = {g}, specified {e}", ev)
                            if lab == "out" and name in removed_from:
                                # C17: what a remove step took out is what usage tracking reports as discarded
                                self.ran("C17")
                                self.report("C17", "discarded_not_reported", k15, f"{name} was the target of a remove step: get_container_flows({name}, {tf!r}, {unit!r})['out'] = {g}, specified {e}", ev)
                            break
                    else:
                        if any(x < -tol for x in gin + gout):
                            self.report("C15", "negative_flow", k15, f"get_container_flows({name}, {tf!r}, {unit!r}) = in {gin} out {gout}", ev)
                        elif got["before"] is not None and got["after"] is not None and len(gin) == len(got["after"]):
                            for a, b, i_, o_ in zip(got["after"], got["before"], gin, gout):
                                if abs((i_ - o_) - (a - b)) > 4 * tol + 1e-6 * abs(a):
                                    self.report("C15", "flows_do_not_balance", k15, f"{name} {tf!r} {unit!r}: in {i_} - out {o_} != after {a} - before {b}", ev)
                                    break

    def same_plate(self, ev):
        return any(st["call"] == "transfer" and st["sn"] == st["dn"] for st in ev["prog"])

    def used_units(self, s):
        if model.is_enzyme(s):
            return [(None, "default"), ("U", "U"), ("mg", "g")]
        return [(None, "default"), ("umol", "mol"), ("mmol", "mol"), ("mg", "g"), ("uL", "L"), ("L", "L"), ("kmol", "mol")]

    def used_scale(self, s, unit):
        """real value in `unit` per model amount unit of s."""
        inst = self.inst
        u, dim = unit
        if u is None:
            if model.is_enzyme(s):
                return inst.aE
            return inst.a / 10**6 / I.PREFIX[self.pp.config.moles_display_unit[:-3]]
        base = {"mol": "mol", "g": "g", "L": "L", "U": "U"}[dim]
        per = per_unit(s, base) * inst.base_scale(base)
        pre = u[:-len(base)]
        return per / I.PREFIX[pre]


def main(argv):
    instance, maxcalls, shard, nshards, v, a, seed, out_path = argv[:8]
    maxcalls, shard, nshards, seed = int(maxcalls), int(shard), int(nshards), int(seed)
    sim = None
    for extra in argv[8:]:
        if extra.startswith("simulate="):
            sim = extra.split("=", 1)[1].split(",")
    src = os.environ.get("PYPLATE_SRC")
    if src:
        sys.path.insert(0, src)
    import pyplate.pyplate as pp
    t0 = time.time()
    tag = f"{instance}_m{maxcalls}_s{shard}of{nshards}" + (f"_sim{sim[2]}" if sim else "") + os.environ.get("VERIF_TAG", "")
    mod, cfg = instances.write_recipe_cfg(instance, tag, maxcalls, shard, nshards)
    if sim:
        info = tlcrun.run_tlc(mod, cfg, workers=1, simulate=f"num={sim[0]}", depth=int(sim[1]), seed=int(sim[2]), tag=tag)
    else:
        # (deep program instances can leave TLC's 32-bit rationals in the middle of the last level: that truncates the level)
        info = tlcrun.run_tlc(mod, cfg, workers=1, tag=tag, tolerate_overflow=maxcalls >= 4)
    it = tlcrun.emitted(info["out"])
    first, second = json.loads(next(it)), json.loads(next(it))
    config = first.get("config") or second.get("config")
    rconfig = first.get("rconfig") or second.get("rconfig")
    inst = I.Inst(pp, v, a, spell_seed=seed)
    rp = RecipeReplay(pp, inst, config, rconfig, instance)
    t1 = time.time()
    rp.run((json.loads(s) for s in it), instances.RECIPE_INSTANCES[instance]["auto_uses"])
    res = {"instance": instance, "maxcalls": maxcalls, "shard": shard, "nshards": nshards, "instantiation": inst.name, "simulate": sim,
           "tlc": dict({k: info[k] for k in ("generated", "distinct", "depth", "wall", "cmd")}, truncated=info.get("truncated")),
           "counts": dict(rp.counts, tlc_truncated_by_32bit_overflow=1 if info.get("truncated") else 0), "evaluated": rp.evaluated,
           "by_class": {"|".join(map(str, k)): n for k, n in rp.by_class.items()},
           "distinct_states": info["distinct"], "violations": rp.viol,
           "violation_counts": [{"property": p, "class_key": json.loads(fk), "count": n} for (p, fk), n in rp.count.items()],
           "samples": rp.samples, "wall_tlc": t1 - t0, "wall_replay": time.time() - t1}
    with open(out_path, "w") as fh:
        json.dump(res, fh)
    os.remove(info["out"])


if __name__ == "__main__":
    main(sys.argv[1:])
