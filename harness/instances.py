"""Model instances: which definitions of spec/MC_*.tla the constants of a specification are bound to, and the
properties TLC checks on them.  The .cfg file of a run is generated from this table."""
import os

from tlcrun import BUILD, SPEC

LAB_DEFAULTS = dict(Subst="Subst4", Regions="CC_Regions", Forms="NoCases", Fracs="NoSet", TUnits="AllUnits",
                    CapStep="CC_CapStep", RemoveCases="NoCases", FillCases="NoCases", FillDeltas="NoSet",
                    DiluteCases="NoCases", DiluteYs="NoSet", NearTargets="FALSE", NewCases="NoCases", SolCases="NoSet",
                    FromCases="NoSet")
LAB_INVARIANTS = ["TypeOK", "NonNeg", "CapOK", "VolConsistent"]
LAB_PROPERTIES = ["Conservation", "LocalityXfer", "RefusalAtomic", "AliquotExact", "RemoveExact", "FillReaches",
                  "DiluteReaches", "SolutionMeets", "StockConserves"]

INSTANCES = {
    # three containers, transfers only
    "LabCC": dict(module="MC_Lab", consts=dict(Names="CC_Names", Shape="CC_Shape", InitVes="CC_Init",
                                               Forms="CC_Forms", Fracs="CC_Fracs"), den_bound=1728),
    # three containers, every container-level operation
    "LabCF": dict(module="MC_Lab", consts=dict(Names="CC_Names", Shape="CC_Shape", InitVes="CC_Init",
                                               Forms="CC_Forms", Fracs="CC_Fracs", RemoveCases="CF_Remove",
                                               FillCases="CF_Fill", FillDeltas="CF_FillDeltas",
                                               DiluteCases="CF_Dilute", DiluteYs="CF_DiluteYs", NewCases="CF_New", NearTargets="TRUE"),
                  den_bound=1728),
    # containers and plates: every pairing form, remove and fill_to on regions
    "LabPL": dict(module="MC_Lab", consts=dict(Names="PL_Names", Shape="PL_Shape", InitVes="PL_Init",
                                               Regions="PL_Regions", Forms="PL_Forms", Fracs="PL_Fracs",
                                               CapStep="PL_CapStep", RemoveCases="PL_Remove", FillCases="PL_Fill",
                                               FillDeltas="PL_FillDeltas"), den_bound=1728),
    # two different plates with the same display name
    "LabDUP": dict(module="MC_Lab", consts=dict(Names="DUP_Names", Shape="DUP_Shape", InitVes="DUP_Init", Regions="PL_Regions",
                                                Forms="DUP_Forms", Fracs="PL_Fracs", CapStep="PL_CapStep", RemoveCases="DUP_Remove",
                                                FillCases="DUP_Fill", FillDeltas="PL_FillDeltas"), den_bound=1728),
    # two different plates that are equal in every respect (name, shape, capacity, contents)
    "LabTWIN": dict(module="MC_Lab", consts=dict(Names="DUP_Names", Shape="DUP_Shape", InitVes="TWIN_Init", Regions="PL_Regions",
                                                 Forms="TWIN_Forms", Fracs="PL_FracsQuick", TUnits="QuickUnits", CapStep="PL_CapStep"), den_bound=1728),
    # two lots of one enzyme
    "LabLOT": dict(module="MC_Lab", consts=dict(Subst="SubstLot", Names="LOT_Names", Shape="LOT_Shape", InitVes="LOT_Init",
                                                Forms="LOT_Forms", Fracs="LOT_Fracs", SolCases="LOT_Sol", FillCases="LOT_Fill",
                                                FillDeltas="LOT_FillDeltas"), den_bound=1000),
    # create_solution / create_solution_from tables (one step from the initial state)
    "LabSOL": dict(module="MC_Lab", consts=dict(Subst="Subst5", Names="SOL_Names", Shape="SOL_Shape", InitVes="SOL_Init",
                                                SolCases="SOL_CasesQuick", FromCases="SOL_FromQuick"), den_bound=1000),
    # a solvent container used, changed, and used again (depth 3, a dozen solution requests, one transfer)
    "LabSOL2": dict(module="MC_Lab", consts=dict(Subst="Subst5", Names="SOL_Names", Shape="SOL_Shape", InitVes="SOL_Init",
                                                 Forms="SOL2_Forms", Fracs="HalfOnly", TUnits="Litres", SolCases="SOL2_Cases"), den_bound=4000),
    # a stock changed by a transfer, a top-up or an earlier withdrawal, then diluted as requested (depth 2)
    "LabSOL3": dict(module="MC_Lab", consts=dict(Subst="Subst5", Names="SOL_Names", Shape="SOL_Shape", InitVes="SOL_Init",
                                                 Forms="SOL3_Forms", Fracs="HalfOnly", TUnits="Litres", FillCases="SOL3_Fill",
                                                 FillDeltas="TwoOnly", FromCases="SOL3_From"), den_bound=4000),
}


def write_cfg(instance, tag, depth, shard=0, nshards=1, overrides=None, spec="Spec", invariants=None,
              properties=None):
    inst = INSTANCES[instance]
    consts = dict(LAB_DEFAULTS)
    consts.update(inst["consts"])
    consts.update(overrides or {})
    den_bound = consts.pop("DenBound", inst["den_bound"])
    lines = [f"SPECIFICATION {spec}", "CONSTANTS"]
    for k, v in consts.items():
        lines.append(f"  {k} = {v}" if v in ("TRUE", "FALSE") else f"  {k} <- {v}")
    lines += [f"  MaxDepth = {depth}", f"  DenBound = {den_bound}", f"  Shard = {shard}",
              f"  NShards = {nshards}", "VIEW View", "CONSTRAINT Bound", "CHECK_DEADLOCK FALSE"]
    for i in (LAB_INVARIANTS if invariants is None else invariants):
        lines.append(f"INVARIANT {i}")
    for p in (LAB_PROPERTIES if properties is None else properties):
        lines.append(f"PROPERTY {p}")
    os.makedirs(os.path.join(BUILD, "tlc"), exist_ok=True)
    path = os.path.join(BUILD, "tlc", tag + ".cfg")
    with open(path, "w") as fh:
        fh.write("\n".join(lines) + "\n")
    return inst["module"], path


# ---- Recipe.tla instances -----------------------------------------------------------------------------------------
RECIPE_INVARIANTS = ["OneOpenStage", "StageNamesUnique", "StagesWellFormed", "BakeClosesStage", "DeclaredNamesUnique",
                     "OnlyDeclaredUsed", "BakeOnlyWhenAllUsed", "LedgerIsFold", "DoomedNeverBakes", "StageAdditivity",
                     "FlowBalance", "TrashIsRemoved", "NonNeg", "CapOK", "VolConsistent"]
RECIPE_PROPERTIES = ["LockedFreezes", "LockedRefuses"]
RECIPE_INSTANCES = {
    "RecipeLife": dict(init="LIFE_Init", alphabet="LIFE_Alphabet", objname="R_ObjName", auto_uses=False, life=True),
    "RecipeProg": dict(init="PROG_Init", alphabet="PROG_Alphabet", objname="PROG_ObjName", auto_uses=True, life=False),
    "RecipeStage": dict(init="PROG_Init", alphabet="STAGE_Alphabet", objname="PROG_ObjName", auto_uses=True, life=False),
    "RecipeStageQ": dict(init="PROG_Init", alphabet="STAGE_Small", objname="PROG_ObjName", auto_uses=True, life=False),
    "RecipeCore": dict(init="PROG_Init", alphabet="PROG_Core", objname="PROG_ObjName", auto_uses=True, life=False),
}


def write_recipe_cfg(instance, tag, maxcalls, shard=0, nshards=1):
    ri = RECIPE_INSTANCES[instance]
    lines = ["SPECIFICATION RSpec", "CONSTANTS", "  Subst <- R_Subst", "  Names <- R_Names", "  Shape <- R_Shape",
             f"  InitVes <- {ri['init']}", "  Regions <- R_Regions", "  Forms <- NoC", "  Fracs <- NoS", "  TUnits <- NoS",
             "  CapStep <- One", "  RemoveCases <- NoC", "  FillCases <- NoC", "  FillDeltas <- NoS", "  DiluteCases <- NoC",
             "  DiluteYs <- NoS", "  NearTargets = FALSE", "  NewCases <- NoC", "  SolCases <- NoS", "  FromCases <- NoS", "  MaxDepth = 99",
             f"  DenBound = {2000 if maxcalls <= 3 else 120}", f"  Shard = {shard}", f"  NShards = {nshards}", f"  Alphabet <- {ri['alphabet']}",
             f"  ObjName <- {ri['objname']}", f"  AutoUses = {'TRUE' if ri['auto_uses'] else 'FALSE'}",
             f"  MaxCalls = {maxcalls}", f"  Life = {'TRUE' if ri['life'] else 'FALSE'}", "  DSets <- R_DSets",
             "VIEW RView", "CHECK_DEADLOCK FALSE"]
    lines += [f"INVARIANT {i}" for i in RECIPE_INVARIANTS] + [f"PROPERTY {p}" for p in RECIPE_PROPERTIES]
    os.makedirs(os.path.join(BUILD, "tlc"), exist_ok=True)
    path = os.path.join(BUILD, "tlc", tag + ".cfg")
    with open(path, "w") as fh:
        fh.write("\n".join(lines) + "\n")
    return "MC_Recipe", path
