"""Units leg: TLC enumerates Units.tla (conversion table, string forms, rescale table), the replay executes
every cell on Unit.convert_from / convert / parse_quantity / parse_concentration / get_human_readable_unit.

usage: units_worker.py <v> <a> <seed> <out.json>          (cwd = empty scratch directory)"""
import json
import os
import random
import sys
import time
from fractions import Fraction as F

sys.path.insert(0, os.path.dirname(os.path.abspath(__file__)))
import tlcrun          # noqa: E402
import inst as I       # noqa: E402
from inst import PREFIX  # noqa: E402
from model import KIND, rat  # noqa: E402

MAXS = 3


def sci(j):
    return rat(j["m"]) * F(10) ** j["e"]


class Rec:
    def __init__(self):
        self.viol, self.count, self.evaluated, self.samples = [], {}, {}, []

    def ran(self, prop, n=1):
        self.evaluated[prop] = self.evaluated.get(prop, 0) + n

    def report(self, prop, clause, key, detail, ev):
        key = dict(key, clause=clause)
        fk = (prop, json.dumps(key, sort_keys=True))
        n = self.count.get(fk, 0)
        self.count[fk] = n + 1
        if n < MAXS:
            self.viol.append({"property": prop, "clause": clause, "class_key": key, "detail": detail, "event": ev, "path": [ev]})


def close(got, exp, rel=1e-12, ab=0.0):
    return abs(got - exp) <= rel * abs(exp) + ab


def main(argv):
    v, a, seed, out_path = argv[:4]
    seed = int(seed)
    src = os.environ.get("PYPLATE_SRC")
    if src:
        sys.path.insert(0, src)
    import pyplate.pyplate as pp
    U = pp.Unit
    inst = I.Inst(pp, v, a, spell_seed=seed)
    R = Rec()
    tlc = {}
    t0 = time.time()
    tag = os.environ.get("VERIF_TAG", "")

    # ---- C06: the complete conversion table ----------------------------------------------------------------
    info = tlcrun.run_tlc("MC_Units", os.path.join(tlcrun.SPEC, "UnitsTable.cfg"), workers=1, tag="UnitsTable" + tag)
    tlc["UnitsTable"] = {k: info[k] for k in ("generated", "distinct", "wall", "cmd")}
    table = {}
    cells = 0
    for s_ in tlcrun.emitted(info["out"]):
        ev = json.loads(s_)
        if ev.get("op") != "convert":
            continue
        cells += 1
        sub, u1, p1, u2, p2 = ev["s"], ev["u1"], ev["p1"], ev["u2"], ev["p2"]
        x = sci(ev["x"]) * inst.base_scale(u1)
        key = {"kind": KIND[sub], "from": u1, "to": u2}
        R.ran("C06")
        try:
            got = U.convert_from(inst.subs[sub], float(x), p1 + u1, p2 + u2)
            exc = None
        except Exception as e:
            got, exc = None, e
        if ev["res"] != "ok":
            if exc is None:
                R.report("C06", "activity_of_non_enzyme_accepted", key, f"convert_from({sub}, {float(x)!r}, {p1 + u1!r}, {p2 + u2!r}) returned {got!r}", ev)
            elif not isinstance(exc, ValueError):
                R.report("C06", "rejection_not_ValueError", dict(key, exc=type(exc).__name__), f"convert_from({sub}, .., {p1 + u1!r}, {p2 + u2!r}) raised {type(exc).__name__}", ev)
            continue
        y = sci(ev["y"]) * inst.base_scale(u2)
        table[(sub, u1, p1, u2, p2)] = (x, y)
        if exc is not None:
            R.report("C06", "conversion_raises", dict(key, exc=type(exc).__name__), f"convert_from({sub}, {float(x)!r}, {p1 + u1!r}, {p2 + u2!r}) raised {type(exc).__name__}: {exc}", ev)
            continue
        if not close(got, float(y), 1e-12, 0.0):
            R.report("C06", "wrong_factor", key,
                     f"convert_from({sub}, {float(x)!r}, {p1 + u1!r}, {p2 + u2!r}) = {got!r}, specified {float(y)!r}", ev)
        if len(R.samples) < 3 and cells % 3001 == 7:
            R.samples.append({"call": f"Unit.convert_from({sub}, {float(x)!r}, {p1 + u1!r}, {p2 + u2!r})", "got": got, "specified": float(y), "event": ev})
        # Unit.convert with the quantity as a string (activity units take no prefix in quantity strings)
        if not (u1 == "U" and p1):
            R.ran("C06")
            try:
                got2 = U.convert(inst.subs[sub], f"{I.fmt(x)} {p1 + u1}", p2 + u2)
                if not close(got2, float(y), 1e-12):
                    R.report("C06", "wrong_factor_convert", key, f"convert({sub}, '{I.fmt(x)} {p1 + u1}', {p2 + u2!r}) = {got2!r}, specified {float(y)!r}", ev)
            except Exception as e:
                R.report("C06", "conversion_raises", dict(key, exc=type(e).__name__, api="convert"), f"convert({sub}, '{I.fmt(x)} {p1 + u1}', {p2 + u2!r}) raised {type(e).__name__}: {e}", ev)
    os.remove(info["out"])
    # chains of three conversions on the implementation against the specified direct conversion
    rng = random.Random(seed)
    keys = sorted(table.keys())
    by_src = {}
    for k in keys:
        by_src.setdefault((k[0], k[1], k[2]), []).append(k)
    chains = 0
    for _ in range(4000):
        k1 = rng.choice(keys)
        sub = k1[0]
        x, y1 = table[k1]
        if y1 == 0 or (k1[3] == "U" and KIND[sub] != "enzyme"):
            continue
        k2 = rng.choice(by_src[(sub, k1[3], k1[4])])
        if table[k2][1] == 0:
            continue
        k3 = rng.choice(by_src[(sub, k2[3], k2[4])])
        direct = table.get((sub, k1[1], k1[2], k3[3], k3[4]))
        if direct is None or table[k3][1] == 0:
            continue
        R.ran("C06")
        chains += 1
        try:
            z = U.convert_from(inst.subs[sub], float(x), k1[2] + k1[1], k1[4] + k1[3])
            z = U.convert_from(inst.subs[sub], z, k2[2] + k2[1], k2[4] + k2[3])
            z = U.convert_from(inst.subs[sub], z, k3[2] + k3[1], k3[4] + k3[3])
        except Exception as e:
            R.report("C06", "chain_raises", {"kind": KIND[sub]}, f"chain {k1} {k2} {k3} raised {e}", {"chain": [k1, k2, k3]})
            continue
        if not close(z, float(direct[1]), 1e-11):
            R.report("C06", "chain_differs_from_direct", {"kind": KIND[sub], "from": k1[1], "to": k3[3]},
                     f"{sub}: {k1[2] + k1[1]} -> {k1[4] + k1[3]} -> {k2[4] + k2[3]} -> {k3[4] + k3[3]} gives {z!r}, direct conversion is {float(direct[1])!r}", {"chain": [k1, k2, k3]})
    # storage conversions
    vs, ms, prec = inst.vol_store_mult, inst.mol_store_mult, inst.precision
    for val in (F(1), F(5, 2), F(999, 100), F(1, 3)):
        for p, mult in PREFIX.items():
            for dim, smult in (("L", vs), ("mol", ms)):
                R.ran("C06", 2)
                exp = val * mult / smult
                try:
                    got = U.convert_to_storage(float(val), p + dim)
                    if not close(got, float(exp), 1e-12, 0.6 * 10 ** -prec):
                        R.report("C06", "convert_to_storage", {"dim": dim}, f"convert_to_storage({float(val)!r}, {p + dim!r}) = {got!r}, expected {float(exp)!r}", {"val": str(val), "unit": p + dim})
                except Exception as e:
                    R.report("C06", "convert_to_storage_raises", {"dim": dim, "exc": type(e).__name__}, f"convert_to_storage({float(val)!r}, {p + dim!r}) raised {type(e).__name__}: {e}", {"val": str(val), "unit": p + dim})
                exp = val * smult / mult
                try:
                    got = U.convert_from_storage(float(val), p + dim)
                    if not close(got, float(exp), 1e-12, 0.6 * 10 ** -prec):
                        R.report("C06", "convert_from_storage", {"dim": dim}, f"convert_from_storage({float(val)!r}, {p + dim!r}) = {got!r}, expected {float(exp)!r}", {"val": str(val), "unit": p + dim})
                except Exception as e:
                    R.report("C06", "convert_from_storage_raises", {"dim": dim, "exc": type(e).__name__}, f"convert_from_storage({float(val)!r}, {p + dim!r}) raised {type(e).__name__}: {e}", {"val": str(val), "unit": p + dim})

    # ---- C14: strings --------------------------------------------------------------------------------------
    info = tlcrun.run_tlc("MC_Units", os.path.join(tlcrun.SPEC, "UnitsParse.cfg"), workers=1, tag="UnitsParse" + tag)
    tlc["UnitsParse"] = {k: info[k] for k in ("generated", "distinct", "wall", "cmd")}
    forms = [json.loads(s_) for s_ in tlcrun.emitted(info["out"])]
    os.remove(info["out"])
    import strings_check
    strings_check.run(pp, inst, forms, R, seed)

    # ---- C19: rescale table --------------------------------------------------------------------------------
    info = tlcrun.run_tlc("MC_Units", os.path.join(tlcrun.SPEC, "UnitsRescale.cfg"), workers=1, tag="UnitsRescale" + tag)
    tlc["UnitsRescale"] = {k: info[k] for k in ("generated", "distinct", "wall", "cmd")}
    for s_ in tlcrun.emitted(info["out"]):
        rq = json.loads(s_)
        x = sci(rq["x"])
        u = rq["u"]
        for given_prefix in ("", "m", "u"):
            if u == "U" and given_prefix:
                continue
            R.ran("C19")
            key = {"op": "rescale", "unit": u, "magnitude": "below_micro" if x < F(1, 10**6) else "normal"}
            try:
                val, unit = U.get_human_readable_unit(float(x), given_prefix + u)
            except Exception as e:
                R.report("C19", "rescale_raises", dict(key, exc=type(e).__name__), f"get_human_readable_unit({float(x)!r}, {given_prefix + u!r}) raised {type(e).__name__}: {e}", rq)
                continue
            if not unit.endswith(u) or unit[:-len(u)] not in PREFIX:
                R.report("C19", "rescale_unit", key, f"get_human_readable_unit({float(x)!r}, {given_prefix + u!r}) returned unit {unit!r}", rq)
                continue
            den = val * float(PREFIX[unit[:-len(u)]])
            if not close(den, float(x), 1e-9):
                R.report("C19", "rescale_changes_amount", key,
                         f"get_human_readable_unit({float(x)!r}, {given_prefix + u!r}) = ({val!r}, {unit!r}) which denotes {den!r} {u}", rq)
            elif x >= F(1, 10**6) and not (0.999999 <= val and (unit[:-len(u)] == "" or val < 1000.001)):
                R.report("C19", "rescale_not_readable", key, f"get_human_readable_unit({float(x)!r}, {u!r}) = ({val!r}, {unit!r})", rq)
        # the same amounts as STORED quantities of a liquid (shown in L), a solid (g), an enzyme (U) and a container's volume (L):
        # convert_from_storage_to_standard_format, which writes the amounts into the constructor / create_solution instructions
        if u == "mol" or x <= 0:
            continue
        cfg = pp.config
        for what, label in ((inst.subs[{"L": "W", "g": "N", "U": "E"}[u]], "substance"),) + (((pp.Container("c"), "container"),) if u == "L" else ()):
            R.ran("C19")
            key = {"op": "standard_format", "unit": u, "what": label, "magnitude": "below_micro" if x < F(1, 10**6) else "normal"}
            if label == "container":
                stored = float(x) / float(PREFIX[cfg.volume_storage_unit[:-1]])
            else:
                stored = float(x) if u == "U" else U.convert_from(what, float(x), u, cfg.moles_storage_unit)
            try:
                val, unit = U.convert_from_storage_to_standard_format(what, stored)
            except Exception as e:
                R.report("C19", "standard_format_raises", dict(key, exc=type(e).__name__), f"convert_from_storage_to_standard_format({label}, {stored!r}) raised {type(e).__name__}: {e}", rq)
                continue
            if not unit.endswith(u) or unit[:-len(u)] not in PREFIX:
                R.report("C19", "standard_format_unit", key, f"convert_from_storage_to_standard_format({label}, {stored!r}) returned unit {unit!r} for an amount in {u}", rq)
                continue
            mult = float(PREFIX[unit[:-len(u)]])
            if abs(val * mult - float(x)) > 1e-9 * float(x) + 0.6 * 10 ** (-cfg.internal_precision) * mult:
                R.report("C19", "standard_format_changes_amount", key,
                         f"convert_from_storage_to_standard_format({label}, {stored!r}) = ({val!r}, {unit!r}) which denotes {val * mult!r} {u}; stored were {float(x)!r} {u}", rq)
    os.remove(info["out"])

    # ---- chains, model-checked without emission (laws as invariants of paths) -----------------------------------
    info = tlcrun.run_tlc("MC_Units", os.path.join(tlcrun.SPEC, "UnitsChains.cfg"), workers=4, tag="UnitsChains" + tag)
    tlc["UnitsChains"] = {k: info[k] for k in ("generated", "distinct", "wall", "cmd")}
    os.remove(info["out"])

    res = {"instance": "Units", "instantiation": inst.name, "tlc": {"generated": sum(t["generated"] for t in tlc.values()),
                                                                   "distinct": sum(t["distinct"] for t in tlc.values()), "runs": tlc},
           "counts": {"executed": sum(R.evaluated.values()), "cells": cells, "chains": chains, "string_forms": len(forms)},
           "evaluated": R.evaluated, "distinct_states": sum(t["distinct"] for t in tlc.values()),
           "violations": R.viol,
           "violation_counts": [{"property": p, "class_key": json.loads(fk), "count": n} for (p, fk), n in R.count.items()],
           "samples": R.samples, "wall": time.time() - t0}
    with open(out_path, "w") as fh:
        json.dump(res, fh)


if __name__ == "__main__":
    main(sys.argv[1:])
