"""pytest plugin (loaded with -p verif_recorder, active only when PYPLATE_VERIF=1): records every Recipe API call
made while the repository's own tests (or the examples) run, for trace validation by TLC against
spec/LifecycleTrace.tla.  The library is not modified: the methods of pyplate.Recipe are wrapped from outside.
One event per top-level call, logged at the call's return (or raise) - the linearization point of a sequential
library - with the observable recipe state after it.  Output: $VERIF_TRACE_OUT (a JSON list of traces)."""
import atexit
import functools
import json
import os

ACTIVE = os.environ.get("PYPLATE_VERIF") == "1"
TRACES = []
_depth = [0]


def _name(x, pp):
    if isinstance(x, (pp.Container, pp.Plate)):
        return x.name
    if isinstance(x, pp.PlateSlicer):
        return x.plate.name
    return "?"


def _post(r):
    return {"nsteps": len(r.steps), "declared": list(r.results.keys()), "locked": bool(r.locked)}


def install():
    import pyplate.pyplate as pp
    R = pp.Recipe
    if getattr(R, "_verif_wrapped", False):
        return
    R._verif_wrapped = True
    orig_init = R.__init__

    @functools.wraps(orig_init)
    def init(self, *a, **k):
        orig_init(self, *a, **k)
        self._verif_trace = []
        TRACES.append(self._verif_trace)
    R.__init__ = init

    def flatten(args):
        out = []
        for a in args:
            if isinstance(a, (pp.Container, pp.Plate, pp.PlateSlicer)) or not hasattr(a, "__iter__") or isinstance(a, str):
                out.append(a)
            else:
                out.extend(flatten(list(a)))
        return out

    def wrap(method, describe):
        orig = getattr(R, method)

        @functools.wraps(orig)
        def w(self, *a, **k):
            if _depth[0] > 0 or not hasattr(self, "_verif_trace"):
                return orig(self, *a, **k)
            _depth[0] += 1
            before = set(self.results.keys())
            out, res = "ok", None
            try:
                res = orig(self, *a, **k)
                return res
            except BaseException as e:
                # the outcome is the documented exception FAMILY (a subclass of RuntimeError is a RuntimeError)
                out = next((n for n, c in (("RuntimeError", RuntimeError), ("ValueError", ValueError), ("TypeError", TypeError))
                            if isinstance(e, c)), type(e).__name__)
                raise
            finally:
                _depth[0] -= 1
                try:
                    for ev in describe(self, a, k, out, res, before):
                        ev.setdefault("post", _post(self))
                        ev["out"] = ev.get("out", out)
                        self._verif_trace.append(ev)
                except Exception as e:      # the recorder must never disturb the run
                    self._verif_trace.append({"m": "recorder_error", "out": repr(e), "post": _post(self)})
        setattr(R, method, w)

    def d_uses(self, a, k, out, res, before):
        try:
            names = [_name(x, pp) for x in flatten(a)]
        except Exception:
            names = ["?"]
        evs = []
        now = set(self.results.keys())
        declared = set(before)
        order = [x for x in self.results.keys() if x in before]
        for n in names:
            if out == "ok" or (n not in declared and n in now):
                declared.add(n)
                order.append(n)
                evs.append({"m": "uses", "n": n, "out": "ok",
                            "post": {"nsteps": len(self.steps), "declared": list(order), "locked": bool(self.locked)}})
            else:
                evs.append({"m": "uses", "n": n, "out": out})
                break
        return evs or [{"m": "uses", "n": "?", "out": out}]

    def getarg(a, k, i, key, default=None):
        return a[i] if len(a) > i else k.get(key, default)

    def d_transfer(self, a, k, out, res, before):
        s, d = getarg(a, k, 0, "source"), getarg(a, k, 1, "destination")
        ops = [_name(s, pp), _name(d, pp)]
        return [{"m": "transfer", "ops": ops, "creates": "-", "marks": ops}]

    def d_target(m):
        def d(self, a, k, out, res, before):
            t = getarg(a, k, 0, "destination")
            n = _name(t, pp)
            return [{"m": m, "ops": [n], "creates": "-", "marks": [n]}]
        return d

    def d_create_container(self, a, k, out, res, before):
        n = getarg(a, k, 0, "name")
        n = n if isinstance(n, str) else "?"
        return [{"m": "create_container", "ops": [], "creates": n, "marks": [n]}]

    def d_create_solution(self, a, k, out, res, before):
        solvent = getarg(a, k, 1, "solvent")
        n = res.name if res is not None else getarg(a, k, 2, "name")
        if not isinstance(n, str):
            new = set(self.results.keys()) - before
            n = next(iter(new)) if new else "?new"
        ops = [_name(solvent, pp)] if isinstance(solvent, (pp.Container, pp.Plate, pp.PlateSlicer)) else []
        return [{"m": "create_solution", "ops": ops, "creates": n, "marks": [n] + ops}]

    def d_create_solution_from(self, a, k, out, res, before):
        src = getarg(a, k, 0, "source")
        n = res.name if res is not None else getarg(a, k, 5, "name")
        if not isinstance(n, str):
            n = "?new"
        s = _name(src, pp)
        return [{"m": "create_solution_from", "ops": [s], "creates": n, "marks": [s, n]}]

    def d_stage(m):
        def d(self, a, k, out, res, before):
            n = getarg(a, k, 0, "name")
            return [{"m": m, "stage": n if isinstance(n, str) else "?"}]
        return d

    def d_bake(self, a, k, out, res, before):
        return [{"m": "bake"}]
    wrap("uses", d_uses)
    wrap("transfer", d_transfer)
    wrap("remove", d_target("remove"))
    wrap("dilute", d_target("dilute"))
    wrap("fill_to", d_target("fill_to"))
    wrap("create_container", d_create_container)
    wrap("create_solution", d_create_solution)
    wrap("create_solution_from", d_create_solution_from)
    wrap("start_stage", d_stage("start_stage"))
    wrap("end_stage", d_stage("end_stage"))
    wrap("bake", d_bake)


def dump():
    path = os.environ.get("VERIF_TRACE_OUT")
    if path:
        with open(path, "w") as fh:
            json.dump([t for t in TRACES if t], fh)


if ACTIVE:
    install()
    atexit.register(dump)


def pytest_sessionfinish(session, exitstatus):
    if ACTIVE:
        dump()
